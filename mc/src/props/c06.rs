//! C06 — conditional compilation selects exactly the right lines, in place.
//!
//! Every case builds one or more Slice files out of *lines* (probe definitions `struct P<row> {}` /
//! `struct P<row> { x: Nope }`, blank lines, preprocessor directives — well formed or not), compiles them with
//! the REAL compiler (`slicec::compile_from_strings` with `SliceOptions.defined_symbols`, i.e. the `-D` option)
//! and compares with a reference preprocessor written from the property statement:
//!
//! * line classification (first non-blank character `#` = directive), `#if/#elif/#else/#endif` nesting with a
//!   stack, `#define/#undef` effective only inside selected regions, only from that line on, only in that file;
//! * the expression language is the one the statement names (`!`, `&&`, `||`, parentheses) with the shape fixed
//!   in DESIGN §8 ("Semantics confirmed"): `expr := ['!'] term {('&&'|'||') term}`, `term := ident | '(' expr ')'`,
//!   i.e. `!` only before the first term of an expression, `&&`/`||` of equal precedence, left associative.
//!   A text this grammar does not derive is a malformed directive;
//! * well-formedness is a property of the whole line sequence (context-free nesting check + every directive
//!   individually well formed), independent of symbol values: directives inside unselected regions count.
//!
//! Oracle.  Well-formed ⇒ (1) no Error diagnostic other than the E033 each surviving `Nope` probe must produce,
//! (2) the identifiers in `files[i].contents` are exactly the selected probes, (3) each at its original row and
//! column, (4) every E033 sits on the row of its probe at the column of `Nope`.  Ill-formed ⇒ at least one E002
//! (no exact count: a lexer error inside a directive replaces earlier recovered errors) attributed to the
//! ill-formed file.  No panic anywhere.
//!
//! Softenings (things the statement leaves open are not flagged): number and position of E002s; what
//! `contents` holds after a syntax error; whether other files of a set are still parsed when one is ill-formed;
//! warnings; the order of definitions and diagnostics (compared as sets); span *ends*.

use super::PropMeta;
use crate::engine::*;
use crate::util::*;
use serde_json::{json, Value};
use slicec::diagnostics::DiagnosticLevel;
use slicec::slice_options::SliceOptions;
use std::collections::{BTreeMap, BTreeSet};

// =====================================================================================================
// Reference preprocessor (works on the rendered TEXT, so it is independent of how the text was generated)
// =====================================================================================================

#[derive(Clone, Debug, PartialEq)]
enum Tok {
    Ident(String),
    Not,
    And,
    Or,
    LPar,
    RPar,
}

/// Tokens of the argument part of a directive; `None` = contains something that is not a directive token.
/// A `//` comment ends the directive.
fn tokenize(s: &str) -> Option<Vec<Tok>> {
    let cs: Vec<char> = s.chars().collect();
    let mut i = 0;
    let mut out = vec![];
    while i < cs.len() {
        let c = cs[i];
        let next = cs.get(i + 1).copied();
        if c.is_whitespace() {
            i += 1;
        } else if c == '/' && next == Some('/') {
            break;
        } else if c == '(' {
            out.push(Tok::LPar);
            i += 1;
        } else if c == ')' {
            out.push(Tok::RPar);
            i += 1;
        } else if c == '!' {
            out.push(Tok::Not);
            i += 1;
        } else if c == '&' && next == Some('&') {
            out.push(Tok::And);
            i += 2;
        } else if c == '|' && next == Some('|') {
            out.push(Tok::Or);
            i += 2;
        } else if c.is_ascii_alphabetic() {
            let mut j = i;
            while j < cs.len() && (cs[j].is_ascii_alphanumeric() || cs[j] == '_') {
                j += 1;
            }
            out.push(Tok::Ident(cs[i..j].iter().collect()));
            i = j;
        } else {
            return None;
        }
    }
    Some(out)
}

#[derive(Clone, Debug, PartialEq)]
enum RExpr {
    Sym(String),
    Not(Box<RExpr>),
    And(Box<RExpr>, Box<RExpr>),
    Or(Box<RExpr>, Box<RExpr>),
}

fn parse_term(t: &[Tok], p: &mut usize) -> Option<RExpr> {
    match t.get(*p) {
        Some(Tok::Ident(s)) => {
            *p += 1;
            Some(RExpr::Sym(s.clone()))
        }
        Some(Tok::LPar) => {
            *p += 1;
            let e = parse_expr(t, p)?;
            if t.get(*p) == Some(&Tok::RPar) {
                *p += 1;
                Some(e)
            } else {
                None
            }
        }
        _ => None,
    }
}

/// expr := ['!'] term { ('&&' | '||') term }   — equal precedence, left associative.
fn parse_expr(t: &[Tok], p: &mut usize) -> Option<RExpr> {
    let mut left = if t.get(*p) == Some(&Tok::Not) {
        *p += 1;
        RExpr::Not(Box::new(parse_term(t, p)?))
    } else {
        parse_term(t, p)?
    };
    loop {
        match t.get(*p) {
            Some(Tok::And) => {
                *p += 1;
                let r = parse_term(t, p)?;
                left = RExpr::And(Box::new(left), Box::new(r));
            }
            Some(Tok::Or) => {
                *p += 1;
                let r = parse_term(t, p)?;
                left = RExpr::Or(Box::new(left), Box::new(r));
            }
            _ => return Some(left),
        }
    }
}

fn parse_full_expr(t: &[Tok]) -> Option<RExpr> {
    let mut p = 0;
    let e = parse_expr(t, &mut p)?;
    if p == t.len() {
        Some(e)
    } else {
        None
    }
}

fn eval(e: &RExpr, syms: &BTreeSet<String>) -> bool {
    match e {
        RExpr::Sym(s) => syms.contains(s),
        RExpr::Not(a) => !eval(a, syms),
        RExpr::And(a, b) => eval(a, syms) && eval(b, syms),
        RExpr::Or(a, b) => eval(a, syms) || eval(b, syms),
    }
}

#[derive(Clone, Debug, PartialEq)]
enum Dir {
    Define(String),
    Undef(String),
    If(RExpr),
    Elif(RExpr),
    Else,
    Endif,
    Malformed,
}

#[derive(Clone, Debug, PartialEq)]
enum LineKind {
    Source,
    Blank,
    Directive(Dir),
}

/// Classify one line (without its '\n'; a trailing '\r' is white space).
fn classify(raw: &str) -> LineKind {
    let t = raw.trim_start();
    if t.trim_end().is_empty() {
        return LineKind::Blank;
    }
    if !t.starts_with('#') {
        return LineKind::Source;
    }
    let rest = t[1..].trim_start();
    let kw_len = rest.chars().take_while(|c| c.is_ascii_alphanumeric() || *c == '_').count();
    let (kw, args) = rest.split_at(kw_len); // ASCII only, so chars == bytes
    let Some(toks) = tokenize(args) else { return LineKind::Directive(Dir::Malformed) };
    let one_ident = || match toks.as_slice() {
        [Tok::Ident(s)] => Some(s.clone()),
        _ => None,
    };
    let d = match kw {
        "define" => one_ident().map(Dir::Define),
        "undef" => one_ident().map(Dir::Undef),
        "if" => parse_full_expr(&toks).map(Dir::If),
        "elif" => parse_full_expr(&toks).map(Dir::Elif),
        "else" => toks.is_empty().then_some(Dir::Else),
        "endif" => toks.is_empty().then_some(Dir::Endif),
        _ => None,
    };
    LineKind::Directive(d.unwrap_or(Dir::Malformed))
}

struct Frame {
    parent_active: bool,
    taken: bool,
    active: bool,
    seen_else: bool,
}

#[derive(Debug)]
struct RefOut {
    wellformed: bool,
    /// rows (1-based) of the source lines that are selected
    kept_rows: BTreeSet<usize>,
    /// rows of the directive lines, and the row on which the text ends
    directive_rows: BTreeSet<usize>,
    last_row: usize,
    /// some line was removed (a directive, or an unselected source line) and a source line after it was kept
    nontrivial: bool,
    end_syms: BTreeSet<String>,
}

fn reference(text: &str, start: &BTreeSet<String>) -> RefOut {
    let mut syms = start.clone();
    let mut stack: Vec<Frame> = vec![];
    let mut ill = false;
    let mut kept_rows = BTreeSet::new();
    let mut directive_rows = BTreeSet::new();
    let mut last_row = 1;
    let mut removed_seen = false;
    let mut nontrivial = false;
    for (i, raw) in text.split('\n').enumerate() {
        let row = i + 1;
        last_row = row;
        let active = stack.last().map_or(true, |f| f.active);
        match classify(raw) {
            LineKind::Blank => {}
            LineKind::Source => {
                if active {
                    kept_rows.insert(row);
                    if removed_seen && row > 1 {
                        nontrivial = true;
                    }
                } else {
                    removed_seen = true;
                }
            }
            LineKind::Directive(d) => {
                removed_seen = true;
                directive_rows.insert(row);
                match d {
                    Dir::Malformed => ill = true,
                    Dir::Define(s) => {
                        if active {
                            syms.insert(s);
                        }
                    }
                    Dir::Undef(s) => {
                        if active {
                            syms.remove(&s);
                        }
                    }
                    Dir::If(e) => {
                        let v = active && eval(&e, &syms);
                        stack.push(Frame { parent_active: active, taken: v, active: v, seen_else: false });
                    }
                    Dir::Elif(e) => match stack.last_mut() {
                        Some(f) if !f.seen_else => {
                            let v = f.parent_active && !f.taken && eval(&e, &syms);
                            f.active = v;
                            f.taken |= v;
                        }
                        _ => ill = true,
                    },
                    Dir::Else => match stack.last_mut() {
                        Some(f) if !f.seen_else => {
                            f.active = f.parent_active && !f.taken;
                            f.taken = true;
                            f.seen_else = true;
                        }
                        _ => ill = true,
                    },
                    Dir::Endif => {
                        if stack.pop().is_none() {
                            ill = true;
                        }
                    }
                }
            }
        }
    }
    if !stack.is_empty() {
        ill = true;
    }
    RefOut { wellformed: !ill, kept_rows, directive_rows, last_row, nontrivial, end_syms: syms }
}

// =====================================================================================================
// File construction
// =====================================================================================================

#[derive(Clone, Debug)]
struct Probe {
    name: String,
    /// 1-based column of the `struct` keyword
    col: usize,
    /// 1-based column of `Nope` (the probe then must produce an E033 there)
    nope_col: Option<usize>,
}

#[derive(Clone, Debug)]
struct PLine {
    text: String,
    probe: Option<Probe>,
}

#[derive(Clone, Copy, Debug, PartialEq)]
struct Layout {
    dir_indent: &'static str,
    after_hash: &'static str,
    trailer: &'static str,
    eol: &'static str,
    final_newline: bool,
    probe_indent: &'static str,
    /// text after a probe definition on its line (a comment whose characters take several bytes each)
    probe_tail: &'static str,
    /// what comes before the module line: 0 nothing, 1 two blank lines, 2 a directive line, 3 indentation (the first
    /// source block of the file then does not start at row 1, column 1)
    preamble: u8,
}

const PLAIN: Layout = Layout { dir_indent: "", after_hash: "", trailer: "", eol: "\n", final_newline: true, probe_indent: "", probe_tail: "", preamble: 0 };

const DIR_INDENTS: [&str; 3] = ["", "  ", "\t"];
const AFTER_HASH: [&str; 3] = ["", " ", "\t "];
const TRAILERS: [&str; 4] = ["", " // note #else", "  ", " // — ≤ 漢字 #endif"];
const EOLS: [&str; 2] = ["\n", "\r\n"];
/// (indent, tail) of probe lines: plain, indented, followed by a comment of multi-byte characters
const PROBE_STYLES: [(&str, &str); 3] = [("", ""), ("   ", ""), ("", " // — ≤ 漢字 #endif é /* # */")];
const N_LAYOUTS: u64 = 3 * 3 * 4 * 2 * 2 * 3;

fn layout(idx: u64) -> Layout {
    let d = decode_index(idx, &[3, 3, 4, 2, 2, 3]);
    Layout {
        dir_indent: DIR_INDENTS[d[0] as usize],
        after_hash: AFTER_HASH[d[1] as usize],
        trailer: TRAILERS[d[2] as usize],
        eol: EOLS[d[3] as usize],
        final_newline: d[4] == 0,
        probe_indent: PROBE_STYLES[d[5] as usize].0,
        probe_tail: PROBE_STYLES[d[5] as usize].1,
        // (not a dimension of its own: it rotates with the others, so every value meets every sequence)
        preamble: ((d[0] + d[2] + d[5] + d[3]) % 4) as u8,
    }
}

#[derive(Clone, Debug)]
struct FileSpec {
    lines: Vec<PLine>,
    eol: &'static str,
    final_newline: bool,
}

impl FileSpec {
    fn new(l: &Layout) -> Self {
        let mut lines = vec![];
        match l.preamble {
            1 => {
                lines.push(PLine { text: String::new(), probe: None });
                lines.push(PLine { text: "  ".into(), probe: None });
            }
            2 => lines.push(PLine { text: "#define Z9".into(), probe: None }),
            _ => {}
        }
        lines.push(PLine { text: format!("{}module M", if l.preamble == 3 { "   " } else { "" }), probe: None });
        FileSpec { lines, eol: l.eol, final_newline: l.final_newline }
    }
    fn next_row(&self) -> usize {
        self.lines.len() + 1
    }
    fn probe(&mut self, prefix: &str, l: &Layout, nope: bool) {
        self.probe_at(prefix, l.probe_indent, nope);
        if !l.probe_tail.is_empty() {
            self.lines.last_mut().unwrap().text.push_str(l.probe_tail);
        }
    }
    fn probe_at(&mut self, prefix: &str, indent: &str, nope: bool) {
        let name = format!("{prefix}{}", self.next_row());
        let col = indent.chars().count() + 1;
        let head = format!("{}struct {} {{", indent, name);
        let (text, nope_col) = if nope {
            let h = format!("{head} x: ");
            let c = h.chars().count() + 1;
            (format!("{h}Nope }}"), Some(c))
        } else {
            (format!("{head}}}"), None)
        };
        self.lines.push(PLine { text, probe: Some(Probe { name, col, nope_col }) });
    }
    /// `canonical` is the directive as written without layout, starting with '#'.
    fn directive(&mut self, canonical: &str, l: &Layout) {
        debug_assert!(canonical.starts_with('#'));
        let text = format!("{}#{}{}{}", l.dir_indent, l.after_hash, &canonical[1..], l.trailer);
        self.lines.push(PLine { text, probe: None });
    }
    fn blank(&mut self, l: &Layout) {
        self.lines.push(PLine { text: l.dir_indent.to_string(), probe: None });
    }
    fn render(&self) -> String {
        let mut s = String::new();
        for (i, l) in self.lines.iter().enumerate() {
            s.push_str(&l.text);
            if i + 1 < self.lines.len() || self.final_newline {
                s.push_str(self.eol);
            }
        }
        s
    }
}

// ---- the line alphabet of DESIGN §C06 ----

const ALPHA: u64 = 14;
const A_PROBE: u8 = 0;
const A_BLANK: u8 = 1;
const A_BAD: u8 = 13;
const ALPHA_TEXT: [&str; 14] = [
    "<probe>", "<blank>", "#define A", "#undef A", "#define B", "#if A", "#if !A", "#if A && B", "#if A || B", "#if (A)", "#elif B", "#else", "#endif",
    "<malformed>",
];
/// The malformed slot of the alphabet takes a different concrete form at every line position, so that each
/// form meets every context (lexer errors: `#foo`, `#if A &`, `#`; parser errors: the others).
const BAD_ROT: [&str; 7] = ["#if", "#foo", "#if A &", "#else X", "#define", "#", "#endif X"];

fn alpha_name(a: u8, pos: usize) -> String {
    if a == A_BAD {
        BAD_ROT[pos % BAD_ROT.len()].to_string()
    } else {
        ALPHA_TEXT[a as usize].to_string()
    }
}

/// Probe at sequence position `pos` is the `Nope` variant iff (pos + flip) is odd; `flip` = "C is defined"
/// (C is never mentioned by the alphabet, so the two alternations split the 8 symbol sets evenly and every
/// position gets both variants for every valuation of A and B).
fn build_seq_file(seq: &[u8], l: &Layout, flip: usize, prefix: &str) -> FileSpec {
    let mut f = FileSpec::new(l);
    for (pos, &a) in seq.iter().enumerate() {
        match a {
            A_PROBE => f.probe(prefix, l, (pos + flip) % 2 == 1),
            A_BLANK => f.blank(l),
            A_BAD => f.directive(BAD_ROT[pos % BAD_ROT.len()], l),
            _ => f.directive(ALPHA_TEXT[a as usize], l),
        }
    }
    f
}

/// Generator-side nesting check on alphabet indices (used only to *select* which sequences of length 7 are
/// run; the oracle decides well-formedness again, independently, on the rendered text).
fn seq_wellnested(seq: &[u8]) -> bool {
    let mut stack: Vec<bool> = vec![];
    for &a in seq {
        match a {
            5..=9 => stack.push(false),
            10 => match stack.last() {
                Some(false) => {}
                _ => return false,
            },
            11 => match stack.last_mut() {
                Some(e) if !*e => *e = true,
                _ => return false,
            },
            12 => {
                if stack.pop().is_none() {
                    return false;
                }
            }
            13 => return false,
            _ => {}
        }
    }
    stack.is_empty()
}

/// Can this prefix still be completed to a well-nested sequence with `room` more lines?
fn prefix_viable(seq: &[u8], room: usize) -> bool {
    let mut stack: Vec<bool> = vec![];
    for &a in seq {
        match a {
            5..=9 => stack.push(false),
            10 => match stack.last() {
                Some(false) => {}
                _ => return false,
            },
            11 => match stack.last_mut() {
                Some(e) if !*e => *e = true,
                _ => return false,
            },
            12 => {
                if stack.pop().is_none() {
                    return false;
                }
            }
            13 => return false,
            _ => {}
        }
    }
    stack.len() <= room
}

// =====================================================================================================
// Running the real compiler and comparing
// =====================================================================================================

const SYMS: [&str; 3] = ["A", "B", "C"];

fn subset(mask: u32) -> Vec<&'static str> {
    (0..3).filter(|i| mask >> i & 1 == 1).map(|i| SYMS[i]).collect()
}

#[derive(Debug)]
struct ObsDiag {
    code: String,
    is_error: bool,
    /// (file index, row, col) of the span start
    at: Option<(usize, usize, usize)>,
}

#[derive(Debug)]
struct Obs {
    /// per file: (identifier, start row, start col)
    defs: Vec<Vec<(String, usize, usize)>>,
    /// per file: the file was parsed as far as its module declaration
    parsed: Vec<bool>,
    diags: Vec<ObsDiag>,
}

fn run_real(texts: &[String], syms: &[&str]) -> Result<Obs, (String, String)> {
    guarded(|| {
        let mut options = SliceOptions::default();
        options.defined_symbols = syms.iter().map(|s| s.to_string()).collect();
        let inputs: Vec<&str> = texts.iter().map(|s| s.as_str()).collect();
        let state = slicec::compile_from_strings(&inputs, Some(&options));
        let defs = state
            .files
            .iter()
            .map(|f| {
                f.contents
                    .iter()
                    .map(|d| {
                        let e = d.borrow();
                        (e.identifier().to_owned(), e.span().start.row, e.span().start.col)
                    })
                    .collect()
            })
            .collect();
        let parsed = state.files.iter().map(|f| f.module.is_some()).collect();
        let slicec::compilation_state::CompilationState { ast, diagnostics, files } = state;
        let diags = diagnostics
            .into_inner()
            .iter()
            .map(|d| ObsDiag {
                code: d.code().to_owned(),
                is_error: d.level() == DiagnosticLevel::Error,
                at: d.span().map(|s| {
                    let fi = s.file.strip_prefix("string-").and_then(|n| n.parse::<usize>().ok()).unwrap_or(usize::MAX);
                    (fi, s.start.row, s.start.col)
                }),
            })
            .collect();
        drop(files);
        drop(ast);
        Obs { defs, parsed, diags }
    })
}

#[derive(Default)]
struct Stats {
    compiles: u64,
    nontrivial: u64,
    wellformed: u64,
    wf_nontrivial: u64,
    classes: BTreeMap<String, u64>,
    max_kept: usize,
    max_e002: usize,
}

impl Stats {
    fn finish(self, out: &mut CaseOut) {
        out.steps = self.compiles;
        out.validated = (self.compiles > 0) as u64;
        out.nontrivial = self.nontrivial > 0;
        let bucket = if self.compiles == 0 { 0 } else { 1 + self.wellformed * 4 / self.compiles };
        out.class = format!("wellformed-bucket={bucket}/max-kept={}/max-E002={}", self.max_kept, self.max_e002);
        out.extra.push(("compiles".into(), self.compiles));
        out.extra.push(("compiles_nontrivial".into(), self.nontrivial));
        out.extra.push(("compiles_wellformed".into(), self.wellformed));
        out.extra.push(("compiles_wellformed_nontrivial".into(), self.wf_nontrivial));
        for (k, v) in self.classes {
            out.extra.push((format!("outcome {k}"), v));
        }
        // one violation per signature per case (a case is a chunk of compilations)
        let mut seen = BTreeSet::new();
        out.violations.retain(|v| seen.insert(v.sig.clone()));
    }
}

fn show_input(texts: &[String], syms: &[&str]) -> String {
    let files: Vec<String> = texts.iter().enumerate().map(|(i, t)| format!("file {i}: {t:?}")).collect();
    format!("-D {:?}; {}", syms, files.join("; "))
}

/// Compile the file set with the given command-line symbols and compare with the reference.
fn check_files(fam: &str, files: &[FileSpec], mask: u32, out: &mut CaseOut, st: &mut Stats) {
    check_files_with(fam, files, &subset(mask), out, st)
}

/// ... with any list of command-line symbols.
fn check_files_with(fam: &str, files: &[FileSpec], syms: &[&str], out: &mut CaseOut, st: &mut Stats) {
    let syms: Vec<&str> = syms.to_vec();
    let texts: Vec<String> = files.iter().map(|f| f.render()).collect();
    let start: BTreeSet<String> = syms.iter().map(|s| s.to_string()).collect();
    let refs: Vec<RefOut> = texts.iter().map(|t| reference(t, &start)).collect();
    // harness self-check: the generator's idea of a probe line agrees with the reference's line classification
    for (f, t) in files.iter().zip(&texts) {
        let n_lines = t.split('\n').count();
        assert!(n_lines == f.lines.len() || n_lines == f.lines.len() + 1, "harness: line count");
        for l in &f.lines {
            if l.probe.is_some() {
                assert!(classify(&l.text) == LineKind::Source, "harness: probe line not classified as source");
            }
        }
    }
    // a selected source line that is not Slice (the marker GARBAGE) makes the file ill-formed for the Slice parser
    let garbage: Vec<bool> = texts.iter().zip(&refs).map(|(t, r)| t.split('\n').enumerate().any(|(i, l)| l.contains(GARBAGE) && r.kept_rows.contains(&(i + 1)))).collect();
    let all_wf = refs.iter().all(|r| r.wellformed) && !garbage.iter().any(|g| *g);
    st.compiles += 1;
    if all_wf {
        st.wellformed += 1;
    }
    let nontrivial = !all_wf || refs.iter().any(|r| r.nontrivial);
    if nontrivial {
        st.nontrivial += 1;
        if all_wf {
            st.wf_nontrivial += 1;
        }
    }

    let obs = match run_real(&texts, &syms) {
        Ok(o) => o,
        Err((loc, msg)) => {
            out.violate(format!("c06/{fam}/panic@{loc}"), format!("panic at {loc}: {msg}; input: {}", show_input(&texts, &syms)));
            *st.classes.entry("panic".into()).or_insert(0) += 1;
            return;
        }
    };
    let e002 = obs.diags.iter().filter(|d| d.code == "E002" && d.is_error).count();
    let kept_total: usize = obs.defs.iter().map(|d| d.len()).sum();
    st.max_kept = st.max_kept.max(kept_total);
    st.max_e002 = st.max_e002.max(e002);
    *st.classes.entry(format!("{}/kept={}/E002={}", if all_wf { "wellformed" } else { "illformed" }, kept_total, e002)).or_insert(0) += 1;

    if !all_wf {
        for (i, r) in refs.iter().enumerate() {
            if r.wellformed {
                if garbage[i] && !obs.diags.iter().any(|d| d.is_error && d.at.map_or(false, |a| a.0 == i)) {
                    out.violate(format!("c06/{fam}/syntax-error-in-a-selected-line-not-reported"), format!("file {i} has a selected line that is not Slice but no error located in that file was reported; diagnostics: {:?}; input: {}", obs.diags, show_input(&texts, &syms)));
                }
                continue;
            }
            // "reported" = an E002 error located in this file on a directive line or where the text ends (an
            // unterminated #if can only be noticed there); an E002 elsewhere is about something else.
            let here = obs
                .diags
                .iter()
                .filter(|d| d.code == "E002" && d.is_error && d.at.map_or(false, |a| a.0 == i && (r.directive_rows.contains(&a.1) || a.1 >= r.last_row)))
                .count();
            if here == 0 {
                out.violate(
                    format!("c06/{fam}/malformed-not-reported"),
                    format!(
                        "file {i} has a malformed or unbalanced directive but no E002 error located on a directive line (or at the end) of that file was reported; diagnostics: {:?}; input: {}",
                        obs.diags,
                        show_input(&texts, &syms)
                    ),
                );
            }
        }
        // The other, well-formed files of the set: whether they are still parsed is left open by the statement,
        // but IF one was parsed, the definitions that reached the parser are those its own directives select
        // (what an ill-formed neighbour defined or undefined before it failed stays in that neighbour).
        if files.len() > 1 {
            for (i, (f, r)) in files.iter().zip(&refs).enumerate() {
                if !r.wellformed || garbage[i] || !obs.parsed[i] {
                    continue;
                }
                let exp_names: BTreeSet<String> = f.lines.iter().enumerate().filter(|(li, l)| l.probe.is_some() && r.kept_rows.contains(&(li + 1))).map(|(_, l)| l.probe.as_ref().unwrap().name.clone()).collect();
                let obs_names: BTreeSet<String> = obs.defs[i].iter().map(|d| d.0.clone()).collect();
                if exp_names != obs_names {
                    out.violate(
                        format!("c06/{fam}/selected-lines-next-to-an-ill-formed-file"),
                        format!("file {i} (well-formed, parsed): definitions that reached the parser {:?}, selected by its directives {:?}; input: {}", obs_names, exp_names, show_input(&texts, &syms)),
                    );
                    return;
                }
            }
        }
        return;
    }

    // (1) no error other than the expected E033s
    if let Some(d) = obs.diags.iter().find(|d| d.is_error && d.code != "E033") {
        out.violate(
            format!("c06/{fam}/error-on-well-formed"),
            format!("well-formed directives but error {} at {:?} was reported; input: {}", d.code, d.at, show_input(&texts, &syms)),
        );
        return;
    }
    // leak model: symbols carried over from the previous file (used only to name the defect)
    let mut leaky: Vec<BTreeSet<String>> = vec![];
    if files.len() > 1 {
        let mut carry = start.clone();
        for (f, t) in files.iter().zip(&texts) {
            let r = reference(t, &carry);
            leaky.push(f.lines.iter().enumerate().filter(|(i, l)| l.probe.is_some() && r.kept_rows.contains(&(i + 1))).map(|(_, l)| l.probe.as_ref().unwrap().name.clone()).collect());
            carry = r.end_syms;
        }
    }
    let mut expected_e033: BTreeSet<(usize, usize, usize)> = BTreeSet::new();
    for (i, (f, r)) in files.iter().zip(&refs).enumerate() {
        // (2) selected lines
        let expected: Vec<(&Probe, usize)> = f.lines.iter().enumerate().filter(|(li, l)| l.probe.is_some() && r.kept_rows.contains(&(li + 1))).map(|(li, l)| (l.probe.as_ref().unwrap(), li + 1)).collect();
        let exp_names: BTreeSet<String> = expected.iter().map(|(p, _)| p.name.clone()).collect();
        let obs_names: BTreeSet<String> = obs.defs[i].iter().map(|d| d.0.clone()).collect();
        if exp_names != obs_names || obs.defs[i].len() != expected.len() {
            let leak = files.len() > 1 && leaky[i] == obs_names && leaky[i] != exp_names;
            out.violate(
                format!("c06/{fam}/{}", if leak { "symbol-leak-between-files" } else { "selected-lines" }),
                format!(
                    "file {i}: definitions that reached the parser {:?}, selected by the directives {:?}{}; input: {}",
                    obs.defs[i].iter().map(|d| &d.0).collect::<Vec<_>>(),
                    exp_names,
                    if leak { " (observed = what symbols leaking from the previous file would select)" } else { "" },
                    show_input(&texts, &syms)
                ),
            );
            return;
        }
        // (3) positions
        for (p, row) in &expected {
            let d = obs.defs[i].iter().find(|d| d.0 == p.name).unwrap();
            if (d.1, d.2) != (*row, p.col) {
                out.violate(
                    format!("c06/{fam}/position-shifted"),
                    format!("file {i}: {} is written at {}:{} but its span starts at {}:{}; input: {}", p.name, row, p.col, d.1, d.2, show_input(&texts, &syms)),
                );
                return;
            }
            if let Some(c) = p.nope_col {
                expected_e033.insert((i, *row, c));
            }
        }
    }
    // (4) diagnostics keep their position
    let mut obs_e033: Vec<(usize, usize, usize)> = obs.diags.iter().filter(|d| d.code == "E033").map(|d| d.at.unwrap_or((usize::MAX, 0, 0))).collect();
    obs_e033.sort();
    let exp_e033: Vec<(usize, usize, usize)> = expected_e033.into_iter().collect();
    if obs_e033 != exp_e033 {
        out.violate(
            format!("c06/{fam}/diagnostic-position"),
            format!("E033 diagnostics expected at (file,row,col) {:?} (one per surviving `Nope`), reported at {:?}; input: {}", exp_e033, obs_e033, show_input(&texts, &syms)),
        );
    }
}

// =====================================================================================================
// Family 1: all line sequences
// =====================================================================================================

/// All sequences of exactly `len` lines over the 14-line alphabet x 8 symbol sets.  A case = one prefix of
/// length len-2, expanded with every 2-line suffix.  `only_wellnested`: run only the well-nested sequences.
struct Seqs {
    len: usize,
    /// number of trailing lines expanded inside one case
    chunk_len: usize,
    only_wellnested: bool,
    /// false: all 8 subsets of {A,B,C}; true: only the 4 subsets of {A,B} (C is never tested by the alphabet),
    /// the probe alternation then follows the parity of the subset
    ab_only: bool,
}

impl Seqs {
    fn all(len: usize) -> Self {
        Seqs { len, chunk_len: len.min(2), only_wellnested: false, ab_only: false }
    }
    fn wellnested(len: usize, ab_only: bool) -> Self {
        Seqs { len, chunk_len: len.min(3), only_wellnested: true, ab_only }
    }
    fn chunk(&self) -> usize {
        self.chunk_len
    }
    fn prefix(&self, idx: u64) -> Vec<u8> {
        let p = self.len - self.chunk();
        decode_index(idx, &vec![ALPHA; p]).into_iter().map(|d| d as u8).collect()
    }
}

impl Family for Seqs {
    fn name(&self) -> String {
        if self.only_wellnested {
            format!("sequences/well-nested/len={}{}", self.len, if self.ab_only { "/4-subsets-of-{A,B}" } else { "" })
        } else {
            format!("sequences/all/len={}", self.len)
        }
    }
    fn len(&self) -> u64 {
        ALPHA.pow((self.len - self.chunk()) as u32)
    }
    fn describe(&self, idx: u64) -> Value {
        let prefix = self.prefix(idx);
        let mut first = prefix.clone();
        first.extend(std::iter::repeat(0u8).take(self.chunk()));
        json!({
            "file": "module M, then the prefix lines, then every suffix",
            "prefix_lines": prefix.iter().enumerate().map(|(p, a)| alpha_name(*a, p)).collect::<Vec<_>>(),
            "suffix": format!("every sequence of {} line(s) over the alphabet{}", self.chunk(), if self.only_wellnested { " that makes the whole file well nested" } else { "" }),
            "alphabet": ALPHA_TEXT, "malformed_slot_by_position": BAD_ROT,
            "probe": "struct P<row> {} / struct P<row> { x: Nope } alternating with the line position, alternation flipped when C is defined",
            "symbol_sets": if self.ab_only { "the 4 subsets of {A,B} via SliceOptions.defined_symbols" } else { "all 8 subsets of {A,B,C} via SliceOptions.defined_symbols" },
            "first_file_of_the_chunk": build_seq_file(&first, &PLAIN, 0, "P").render(),
        })
    }
    fn run(&self, idx: u64) -> CaseOut {
        let mut out = CaseOut::new(hash_str(&format!("c06-seq-{}-{}-{}-{idx}", self.len, self.only_wellnested, self.ab_only)));
        let mut st = Stats::default();
        let prefix = self.prefix(idx);
        if self.only_wellnested && !prefix_viable(&prefix, self.chunk()) {
            st.finish(&mut out);
            out.class = "no-well-nested-completion".into();
            return out;
        }
        let fam = if self.only_wellnested { "sequences-well-nested" } else { "sequences" };
        let mut seq = prefix.clone();
        seq.resize(self.len, 0);
        let p = prefix.len();
        for s in 0..ALPHA.pow(self.chunk() as u32) {
            let d = decode_index(s, &vec![ALPHA; self.chunk()]);
            for (k, v) in d.iter().enumerate() {
                seq[p + k] = *v as u8;
            }
            if self.only_wellnested && !seq_wellnested(&seq) {
                continue;
            }
            for mask in 0..(if self.ab_only { 4u32 } else { 8u32 }) {
                let flip = if self.ab_only { (mask ^ mask >> 1) & 1 } else { mask >> 2 & 1 };
                let f = build_seq_file(&seq, &PLAIN, flip as usize, "P");
                check_files(fam, std::slice::from_ref(&f), mask, &mut out, &mut st);
            }
        }
        st.finish(&mut out);
        out
    }
}

// =====================================================================================================
// Family 2: expressions
// =====================================================================================================

#[derive(Clone, Debug)]
enum GTerm {
    Sym(usize),
    Par(Box<GExpr>),
}
#[derive(Clone, Debug)]
enum GExpr {
    T(GTerm),
    Not(GTerm),
    And(Box<GExpr>, GTerm),
    Or(Box<GExpr>, GTerm),
}

impl GTerm {
    fn render(&self) -> String {
        match self {
            GTerm::Sym(i) => SYMS[*i].to_string(),
            GTerm::Par(e) => format!("({})", e.render()),
        }
    }
    fn eval(&self, mask: u32) -> bool {
        match self {
            GTerm::Sym(i) => mask >> i & 1 == 1,
            GTerm::Par(e) => e.eval(mask),
        }
    }
}
impl GExpr {
    fn render(&self) -> String {
        match self {
            GExpr::T(t) => t.render(),
            GExpr::Not(t) => format!("!{}", t.render()),
            GExpr::And(e, t) => format!("{} && {}", e.render(), t.render()),
            GExpr::Or(e, t) => format!("{} || {}", e.render(), t.render()),
        }
    }
    /// The rules of DESIGN §8: the left operand of `&&`/`||` is everything written before it.
    fn eval(&self, mask: u32) -> bool {
        match self {
            GExpr::T(t) => t.eval(mask),
            GExpr::Not(t) => !t.eval(mask),
            GExpr::And(e, t) => e.eval(mask) && t.eval(mask),
            GExpr::Or(e, t) => e.eval(mask) || t.eval(mask),
        }
    }
}

/// All expressions of the grammar whose tree (Symbol = 1; parentheses, `!`, `&&`, `||` add one level) has
/// depth <= `depth`.
fn gen_exprs(depth: usize) -> Vec<GExpr> {
    let mut terms: Vec<GTerm> = (0..3).map(GTerm::Sym).collect(); // depth <= 1
    let mut exprs: Vec<GExpr> = terms.iter().cloned().map(GExpr::T).collect();
    for _ in 1..depth {
        let mut nt: Vec<GTerm> = (0..3).map(GTerm::Sym).collect();
        nt.extend(exprs.iter().cloned().map(|e| GTerm::Par(Box::new(e))));
        let mut ne: Vec<GExpr> = nt.iter().cloned().map(GExpr::T).collect();
        ne.extend(terms.iter().cloned().map(GExpr::Not));
        for e in &exprs {
            for t in &terms {
                ne.push(GExpr::And(Box::new(e.clone()), t.clone()));
                ne.push(GExpr::Or(Box::new(e.clone()), t.clone()));
            }
        }
        terms = nt;
        exprs = ne;
    }
    exprs
}

/// The file every expression is embedded in: once as `#if`, once as `#elif` after an `#if` that is false.
fn build_expr_file(expr_text: &str) -> FileSpec {
    let l = &PLAIN;
    let mut f = FileSpec::new(l);
    f.directive(&format!("#if {expr_text}"), l);
    f.probe("P", l, true);
    f.directive("#else", l);
    f.probe("P", l, false);
    f.directive("#endif", l);
    f.directive("#if Z", l);
    f.probe("P", l, false);
    f.directive(&format!("#elif {expr_text}"), l);
    f.probe("P", l, false);
    f.directive("#else", l);
    f.probe("P", l, true);
    f.directive("#endif", l);
    f.probe("P", l, false);
    f
}

struct ExprTrees {
    depth: usize,
    exprs: Vec<GExpr>,
}

impl Family for ExprTrees {
    fn name(&self) -> String {
        format!("expressions/grammar-trees/depth<={}", self.depth)
    }
    fn len(&self) -> u64 {
        self.exprs.len() as u64
    }
    fn describe(&self, idx: u64) -> Value {
        let text = self.exprs[idx as usize].render();
        json!({"expression": text, "valuations": "all 8 subsets of {A,B,C}", "file": build_expr_file(&text).render()})
    }
    fn run(&self, idx: u64) -> CaseOut {
        let e = &self.exprs[idx as usize];
        let text = e.render();
        let mut out = CaseOut::new(hash_str(&format!("c06-expr-{text}")));
        let mut st = Stats::default();
        let f = build_expr_file(&text);
        // harness self-check: the reference parser reads the rendered text back with the same meaning
        let parsed = tokenize(&text).and_then(|t| parse_full_expr(&t)).expect("harness: reference grammar rejects a generated expression");
        for mask in 0..8u32 {
            let syms: BTreeSet<String> = subset(mask).iter().map(|s| s.to_string()).collect();
            assert_eq!(eval(&parsed, &syms), e.eval(mask), "harness: reference parser and tree evaluation disagree on {text}");
            check_files("expressions", std::slice::from_ref(&f), mask, &mut out, &mut st);
        }
        st.finish(&mut out);
        out.nontrivial = true;
        let truth: String = (0..8u32).map(|m| if e.eval(m) { '1' } else { '0' }).collect();
        out.class = format!("truth-table={truth}");
        out
    }
}

/// Every token string of length <= max_len over {A, B, !, &&, ||, (, ), &} written with single blanks:
/// accepted by the grammar => evaluated; rejected => at least one E002.
struct ExprTokens {
    max_len: usize,
}
const ETOKS: [&str; 8] = ["A", "B", "!", "&&", "||", "(", ")", "&"];

impl ExprTokens {
    fn text(&self, mut idx: u64) -> String {
        let mut len = 0usize;
        loop {
            let n = (ETOKS.len() as u64).pow(len as u32);
            if idx < n {
                break;
            }
            idx -= n;
            len += 1;
        }
        let d = decode_index(idx, &vec![ETOKS.len() as u64; len]);
        d.iter().map(|t| ETOKS[*t as usize]).collect::<Vec<_>>().join(" ")
    }
}

impl Family for ExprTokens {
    fn name(&self) -> String {
        format!("expressions/token-strings/len<={}", self.max_len)
    }
    fn len(&self) -> u64 {
        (0..=self.max_len).map(|l| (ETOKS.len() as u64).pow(l as u32)).sum()
    }
    fn describe(&self, idx: u64) -> Value {
        let text = self.text(idx);
        let accepted = tokenize(&text).and_then(|t| parse_full_expr(&t)).is_some();
        json!({"expression": text, "grammar_accepts": accepted, "valuations": "all 8 subsets of {A,B,C}", "file": build_expr_file(&text).render()})
    }
    fn run(&self, idx: u64) -> CaseOut {
        let text = self.text(idx);
        let mut out = CaseOut::new(hash_str(&format!("c06-etok-{text}")));
        let mut st = Stats::default();
        let f = build_expr_file(&text);
        for mask in 0..8u32 {
            check_files("expression-tokens", std::slice::from_ref(&f), mask, &mut out, &mut st);
        }
        let accepted = tokenize(&text).and_then(|t| parse_full_expr(&t));
        st.finish(&mut out);
        out.nontrivial = true;
        out.class = match accepted {
            Some(e) => {
                let truth: String = (0..8u32).map(|m| if eval(&e, &subset(m).iter().map(|s| s.to_string()).collect()) { '1' } else { '0' }).collect();
                format!("accepted/truth-table={truth}")
            }
            None => format!("rejected/{}", out.class),
        };
        out
    }
}

// =====================================================================================================
// Layout families
// =====================================================================================================

/// Longer fixed sequences (alphabet indices) used by the layout, malformed-form and multi-file families.
const P: u8 = 0;
const BASES: [&[u8]; 10] = [
    &[P, 5, P, 12, P],                              // #if A .. #endif
    &[6, P, 11, P, 12, P],                          // #if !A .. #else .. #endif
    &[5, P, 10, P, 11, P, 12, P],                   // #if A / #elif B / #else
    &[2, 5, 8, P, 12, P, 12, P],                    // define A; nested
    &[5, 4, 12, 8, P, 11, P, 12],                   // define inside a region, tested afterwards
    &[7, P, 11, 3, 6, P, 12, 12, P, 1, P],          // undef inside else, nested, blank
    &[P, 1, 9, 1, P, 1, 12, 1, P],                  // blanks around everything
    &[5, 6, P, 11, P, 12, 10, 9, P, 12, 11, P, 12], // deeper nesting inside #if and #elif
    &[5, P, 11, P, 10, P, 12],                      // ill-formed: #elif after #else
    &[P, 5, P, 6, P, 12, P],                        // ill-formed: EOF inside #if
];

/// (sequence, layout) x 8 symbol sets; sequences = all sequences of length <= max_len plus BASES.
struct Layouts {
    max_len: usize,
}
impl Layouts {
    fn n_short(&self) -> u64 {
        (0..=self.max_len).map(|l| ALPHA.pow(l as u32)).sum()
    }
    fn seq(&self, mut s: u64) -> Vec<u8> {
        if s >= self.n_short() {
            return BASES[(s - self.n_short()) as usize].to_vec();
        }
        let mut len = 0usize;
        loop {
            let n = ALPHA.pow(len as u32);
            if s < n {
                break;
            }
            s -= n;
            len += 1;
        }
        decode_index(s, &vec![ALPHA; len]).into_iter().map(|d| d as u8).collect()
    }
}
impl Family for Layouts {
    fn name(&self) -> String {
        format!("layouts/all-sequences-len<={}+{}-fixed x 432 layouts", self.max_len, BASES.len())
    }
    fn len(&self) -> u64 {
        (self.n_short() + BASES.len() as u64) * N_LAYOUTS
    }
    fn describe(&self, idx: u64) -> Value {
        let seq = self.seq(idx / N_LAYOUTS);
        let l = layout(idx % N_LAYOUTS);
        json!({
            "lines": seq.iter().enumerate().map(|(p, a)| alpha_name(*a, p)).collect::<Vec<_>>(),
            "layout": {"indent_before_hash": l.dir_indent, "after_hash": l.after_hash, "after_directive": l.trailer, "eol": l.eol, "final_newline": l.final_newline, "probe_indent": l.probe_indent},
            "symbol_sets": "all 8 subsets of {A,B,C}",
            "file": build_seq_file(&seq, &l, 0, "P").render(),
        })
    }
    fn run(&self, idx: u64) -> CaseOut {
        let seq = self.seq(idx / N_LAYOUTS);
        let l = layout(idx % N_LAYOUTS);
        let mut out = CaseOut::new(hash_str(&format!("c06-layout-{idx}-{}", self.max_len)));
        let mut st = Stats::default();
        for mask in 0..8u32 {
            let f = build_seq_file(&seq, &l, (mask >> 2 & 1) as usize, "P");
            check_files("layouts", std::slice::from_ref(&f), mask, &mut out, &mut st);
        }
        st.finish(&mut out);
        out
    }
}

/// Every malformed directive form inserted at every position of every well-formed base sequence.
const BAD_FORMS: [&str; 34] = [
    "#", "# ", "#if", "#if !", "#if A &", "#if A &&", "#if A | B", "#if A |", "#if && A", "#if A B", "#if !!A", "#if A && !B", "#if A || !B", "#if ()",
    "#if (A", "#if A)", "#if (!)", "#if A /* c */", "#if A / B", "#if 1", "#if A == B", "#elif", "#elif !", "#else X", "#else !", "#endif X", "#endif (",
    "#define", "#define A B", "#define !A", "#undef", "#undef (A)", "#foo", "#ifdef A",
];

struct BadForms;
impl BadForms {
    /// (base, position, form, with_companions)
    fn cases() -> Vec<(usize, usize, usize, bool)> {
        let mut v = vec![];
        for (b, base) in BASES.iter().enumerate().take(8) {
            for pos in 0..=base.len() {
                for f in 0..BAD_FORMS.len() {
                    v.push((b, pos, f, false));
                    v.push((b, pos, f, true));
                }
            }
        }
        v
    }
    /// `with_companions`: the malformed directive is given the partner lines its well-formed counterpart would
    /// need (`#if ..` + `#endif`; `#if A` + `#elif ..`/`#else ..` + `#endif`; `#if A` + `#endif ..`), so that a
    /// preprocessor that silently *accepts* the form sees a balanced file; without companions a preprocessor that
    /// silently *drops* the line sees a balanced file.  Either way the reference says: ill-formed.
    fn build(b: usize, pos: usize, form: usize, with_companions: bool, flip: usize) -> FileSpec {
        let l = &PLAIN;
        let mut f = FileSpec::new(l);
        let base = BASES[b];
        let bad = BAD_FORMS[form];
        for i in 0..=base.len() {
            if i == pos {
                let kw: String = bad[1..].trim_start().chars().take_while(|c| c.is_ascii_alphanumeric()).collect();
                match (with_companions, kw.as_str()) {
                    (true, "if") => {
                        f.directive(bad, l);
                        f.probe("Q", l, false);
                        f.directive("#endif", l);
                    }
                    (true, "elif") | (true, "else") => {
                        f.directive("#if A", l);
                        f.directive(bad, l);
                        f.probe("Q", l, false);
                        f.directive("#endif", l);
                    }
                    (true, "endif") => {
                        f.directive("#if A", l);
                        f.probe("Q", l, false);
                        f.directive(bad, l);
                    }
                    _ => f.directive(bad, l),
                }
            }
            if i < base.len() {
                match base[i] {
                    A_PROBE => f.probe("P", l, (i + flip) % 2 == 1),
                    A_BLANK => f.blank(l),
                    a => f.directive(ALPHA_TEXT[a as usize], l),
                }
            }
        }
        f
    }
}
impl Family for BadForms {
    fn name(&self) -> String {
        format!("malformed-forms/{} forms x every position of 8 well-formed files x with/without companion lines", BAD_FORMS.len())
    }
    fn len(&self) -> u64 {
        Self::cases().len() as u64
    }
    fn describe(&self, idx: u64) -> Value {
        let (b, pos, form, comp) = Self::cases()[idx as usize];
        json!({"malformed_directive": BAD_FORMS[form], "inserted_before_line": pos, "with_companion_lines": comp, "symbol_sets": "all 8 subsets of {A,B,C}", "file": Self::build(b, pos, form, comp, 0).render()})
    }
    fn run(&self, idx: u64) -> CaseOut {
        let (b, pos, form, comp) = Self::cases()[idx as usize];
        let mut out = CaseOut::new(hash_str(&format!("c06-bad-{b}-{pos}-{form}-{comp}")));
        let mut st = Stats::default();
        // harness self-check: each listed form really is malformed for the reference
        assert!(classify(BAD_FORMS[form]) == LineKind::Directive(Dir::Malformed), "harness: {} is not malformed", BAD_FORMS[form]);
        for mask in 0..8u32 {
            let f = Self::build(b, pos, form, comp, (mask >> 2 & 1) as usize);
            check_files("malformed-forms", std::slice::from_ref(&f), mask, &mut out, &mut st);
        }
        st.finish(&mut out);
        out
    }
}

/// Deep nesting: a chain of `depth` conditionals, each nested inside the previous one's #if or #else branch,
/// directives and probes indented by their depth.
struct Nested {
    depth: usize,
}
const NCONDS: [&str; 3] = ["A", "!A", "B"];
impl Nested {
    fn build(&self, idx: u64, flip: usize) -> FileSpec {
        let choices = decode_index(idx, &vec![9; self.depth]);
        // the flipped variant also uses CRLF line ends and trailing comments
        let l = if flip == 1 { Layout { eol: "\r\n", trailer: " // c", ..PLAIN } } else { PLAIN };
        let mut f = FileSpec::new(&l);
        let mut n = flip;
        self.emit(&mut f, &l, &choices, 0, &mut n);
        f
    }
    fn emit(&self, f: &mut FileSpec, l: &Layout, choices: &[u64], level: usize, n: &mut usize) {
        let (cond, shape) = (NCONDS[(choices[level] % 3) as usize], choices[level] / 3);
        let ind = "  ".repeat(level);
        let inner = "  ".repeat(level + 1);
        let dir = |f: &mut FileSpec, text: &str| f.lines.push(PLine { text: format!("{ind}{text}{}", l.trailer), probe: None });
        let probe = |f: &mut FileSpec, indent: &str, n: &mut usize| {
            f.probe_at("P", indent, *n % 2 == 1);
            *n += 1;
        };
        dir(f, &format!("#if {cond}"));
        probe(f, &inner, n);
        if shape != 2 && level + 1 < choices.len() {
            self.emit(f, l, choices, level + 1, n);
        }
        if shape >= 1 {
            dir(f, "#else");
            probe(f, &inner, n);
            if shape == 2 && level + 1 < choices.len() {
                self.emit(f, l, choices, level + 1, n);
            }
        }
        dir(f, "#endif");
        probe(f, &ind, n);
    }
}
impl Family for Nested {
    fn name(&self) -> String {
        format!("nesting/chains-of-depth-{}", self.depth)
    }
    fn len(&self) -> u64 {
        9u64.pow(self.depth as u32)
    }
    fn describe(&self, idx: u64) -> Value {
        json!({
            "per_level": "condition in {A, !A, B} x shape in {no #else, #else with the next level inside the #if branch, #else with the next level inside the #else branch}",
            "symbol_sets": "all 8 subsets of {A,B,C}; when C is defined the file uses CRLF and trailing comments and the probe variants are swapped",
            "file": self.build(idx, 0).render(),
        })
    }
    fn run(&self, idx: u64) -> CaseOut {
        let mut out = CaseOut::new(hash_str(&format!("c06-nest-{}-{idx}", self.depth)));
        let mut st = Stats::default();
        for mask in 0..8u32 {
            let f = self.build(idx, (mask >> 2 & 1) as usize);
            check_files("nesting", std::slice::from_ref(&f), mask, &mut out, &mut st);
        }
        st.finish(&mut out);
        out
    }
}

// =====================================================================================================
// Family 3: sets of files
// =====================================================================================================

/// Items a file of a set is made of.
const ITEMS: [&str; 7] = ["#define A", "#undef A", "#define B", "#undef C", "test A", "test B", "test C"];

fn build_item_file(items: &[u8], file_no: usize, flip: usize) -> FileSpec {
    let l = &PLAIN;
    let mut f = FileSpec::new(l);
    let prefix = format!("F{file_no}L");
    for (k, &it) in items.iter().enumerate() {
        let name = ITEMS[it as usize];
        if let Some(sym) = name.strip_prefix("test ") {
            f.directive(&format!("#if {sym}"), l);
            f.probe(&prefix, l, (k + flip) % 2 == 1);
            f.directive("#else", l);
            f.probe(&prefix, l, (k + flip) % 2 == 0);
            f.directive("#endif", l);
        } else {
            f.directive(name, l);
        }
    }
    f.probe(&prefix, l, false);
    f
}

/// All `arity`-tuples of files with <= max_items items each, x 8 command-line symbol sets.
struct FileSets {
    arity: usize,
    max_items: usize,
    n_items: usize,
}
impl FileSets {
    fn n_files(&self) -> u64 {
        (0..=self.max_items).map(|l| (self.n_items as u64).pow(l as u32)).sum()
    }
    fn file_items(&self, mut s: u64) -> Vec<u8> {
        let mut len = 0usize;
        loop {
            let n = (self.n_items as u64).pow(len as u32);
            if s < n {
                break;
            }
            s -= n;
            len += 1;
        }
        decode_index(s, &vec![self.n_items as u64; len]).into_iter().map(|d| d as u8).collect()
    }
    fn files(&self, idx: u64, flip: usize) -> Vec<FileSpec> {
        let d = decode_index(idx, &vec![self.n_files(); self.arity]);
        d.iter().enumerate().map(|(i, s)| build_item_file(&self.file_items(*s), i, flip)).collect()
    }
}
impl Family for FileSets {
    fn name(&self) -> String {
        format!("file-sets/{}-files/<={}-items-of-{}", self.arity, self.max_items, self.n_items)
    }
    fn len(&self) -> u64 {
        self.n_files().pow(self.arity as u32)
    }
    fn describe(&self, idx: u64) -> Value {
        let d = decode_index(idx, &vec![self.n_files(); self.arity]);
        json!({
            "files_as_items": d.iter().map(|s| self.file_items(*s).iter().map(|i| ITEMS[*i as usize]).collect::<Vec<_>>()).collect::<Vec<_>>(),
            "test X": "#if X / probe / #else / probe / #endif",
            "symbol_sets": "all 8 subsets of {A,B,C}",
            "files": self.files(idx, 0).iter().map(|f| f.render()).collect::<Vec<_>>(),
        })
    }
    fn run(&self, idx: u64) -> CaseOut {
        let mut out = CaseOut::new(hash_str(&format!("c06-sets-{}-{}-{}-{idx}", self.arity, self.max_items, self.n_items)));
        let mut st = Stats::default();
        for mask in 0..8u32 {
            // the probe variant alternation is flipped with B here (C is tested by the files)
            let files = self.files(idx, (mask >> 1 & 1) as usize);
            check_files("file-sets", &files, mask, &mut out, &mut st);
        }
        st.finish(&mut out);
        // non-trivial for this family: some file defines/undefines a symbol that another file tests
        let d = decode_index(idx, &vec![self.n_files(); self.arity]);
        let items: Vec<Vec<u8>> = d.iter().map(|s| self.file_items(*s)).collect();
        let sym_of = |i: u8| ITEMS[i as usize].chars().last().unwrap();
        let mut cross = false;
        for (i, a) in items.iter().enumerate() {
            for (j, b) in items.iter().enumerate() {
                if i != j && a.iter().any(|x| *x < 4 && b.iter().any(|y| *y >= 4 && sym_of(*y) == sym_of(*x))) {
                    cross = true;
                }
            }
        }
        out.nontrivial = cross;
        out
    }
}

/// Sets containing one ill-formed file: it must be reported whatever surrounds it.
struct FileSetsWithBad;
const BAD_FILES: [&[&str]; 15] = [
    &["#endif"],
    &["#if A"],
    &["#else"],
    &["#if A", "#else", "#elif B", "#endif"],
    &["#define"],
    // files that define / undefine symbols and THEN fail (recoverable directive errors, an unbalanced directive)
    &["#define A", "#define B Bar"],
    &["#define A", "#define C", "#endif"],
    &["#undef A", "#undef B", "#else"],
    &["#define B", "#undef C", "#if"],
    &["#define A", "#define B", "#define C", "#foo"],
    &["#undef A", "#undef B", "#undef C", "#endif X"],
    &["#define A", "#undef B", "#define C", "#if A"],
    // ... and files whose directives are fine but whose selected text is not Slice
    &["#define A", "#define B", GARBAGE],
    &["#undef A", "#define C", "#if C", GARBAGE, "#endif"],
    &["#undef B", "#undef C", "#define A", GARBAGE, "#undef A"],
];
const GARBAGE: &str = "struct { oops";
impl Family for FileSetsWithBad {
    fn name(&self) -> String {
        "file-sets/one-ill-formed-file-among-three".into()
    }
    fn len(&self) -> u64 {
        (BAD_FILES.len() * 3 * 8 * 8) as u64
    }
    fn describe(&self, idx: u64) -> Value {
        json!({"files": self.build(idx).iter().map(|f| f.render()).collect::<Vec<_>>(), "symbol_sets": "all 8 subsets of {A,B,C}"})
    }
    fn run(&self, idx: u64) -> CaseOut {
        let mut out = CaseOut::new(hash_str(&format!("c06-setsbad-{idx}")));
        let mut st = Stats::default();
        let files = self.build(idx);
        for mask in 0..8u32 {
            check_files("file-sets-ill-formed", &files, mask, &mut out, &mut st);
        }
        st.finish(&mut out);
        out
    }
}
impl FileSetsWithBad {
    fn build(&self, idx: u64) -> Vec<FileSpec> {
        let d = decode_index(idx, &[BAD_FILES.len() as u64, 3, 8, 8]);
        let others = [d[2], d[3]];
        let mut files = vec![];
        let mut o = 0;
        for i in 0..3usize {
            if i as u64 == d[1] {
                let l = &PLAIN;
                let mut f = FileSpec::new(l);
                f.probe(&format!("F{i}L"), l, false);
                for line in BAD_FILES[d[0] as usize] {
                    if line.starts_with('#') {
                        f.directive(line, l);
                    } else {
                        f.lines.push(PLine { text: line.to_string(), probe: None });
                    }
                }
                f.probe(&format!("F{i}L"), l, false);
                files.push(f);
            } else {
                // the 8 files with <= 1 item
                let items: Vec<u8> = if others[o] == 0 { vec![] } else { vec![(others[o] - 1) as u8] };
                files.push(build_item_file(&items, i, 0));
                o += 1;
            }
        }
        files
    }
}

// =====================================================================================================

pub fn meta(m: &mut PropMeta) {
    m.rule = "a file is `module M` followed by a sequence of lines over the 14-line alphabet {probe `struct P<row> {}` / `struct P<row> { x: Nope }` (alternating with the line position, alternation flipped when C is defined), blank, #define A, #undef A, #define B, #if A, #if !A, #if A && B, #if A || B, #if (A), #elif B, #else, #endif, a malformed directive (a different form at each line position: #if, #foo, #if A &, #else X, #define, #, #endif X)}; EVERY sequence (well nested or not) up to the bound x all 8 subsets of {A,B,C} given through SliceOptions.defined_symbols is compiled by the real compiler and compared with a reference preprocessor written from the statement (line classification, stack of regions, #define/#undef effective only in selected regions, from that line on, in that file). Well-formed => no Error other than one E033 per surviving Nope probe, files[i].contents = exactly the selected probes, each span starting at its original row and column, each E033 at the row of its probe and the column of `Nope`. Ill-formed (unbalanced, #elif/#else misplaced, EOF inside #if, malformed directive or expression - also inside unselected regions) => at least one E002 error located in that file on a directive line or where the text ends (no count demanded), no panic. Further families: all well-nested sequences of larger lengths (the largest one with the 4 subsets of {A,B} only - C is never tested by the alphabet); every expression of the grammar (['!'] term {('&&'|'||') term}, term = ident | '(' expr ')'; equal precedence, left associative) with tree depth <= bound over A,B,C x 8 valuations, used as #if and as #elif after a false #if; every token string over {A,B,!,&&,||,(,),&} up to the bound (grammar accepts => evaluated, rejects => E002); every sequence up to a smaller bound plus 10 fixed longer files x 432 layouts (indentation before '#', blanks after '#', trailing // comment or blanks, CRLF, no final newline, indented probes); 34 malformed directive forms inserted at every position of 8 well-formed files, with and without the companion lines their well-formed counterparts would need; chains of nested conditionals of depth 5/6 (condition x else-shape per level, indented, CRLF + comments in half of the runs); all pairs/triples of files made of items {#define A, #undef A, #define B, #undef C, test A, test B, test C} x 8 symbol sets (symbols must not leak between files, command-line symbols are visible in every file), and triples with one ill-formed file. A case is a chunk of compilations (one sequence prefix x every 2- or 3-line suffix x 8 symbol sets; one expression / (sequence, layout) / file set x 8 symbol sets); distinct = distinct chunks; steps = compilations. A compilation is non-trivial if it is ill-formed or if a line is removed and a probe after it survives; a chunk is non-trivial if it contains such a compilation (expression chunks always; file-set chunks when one file defines/undefines what another tests); prefixes of the well-nested families that cannot be completed run nothing and are trivial. Per-compilation outcome classes (well-formed?, definitions kept, number of E002) are counted in extra_counters (`outcome ...`, `compiles_wellformed_nontrivial`).";
    m.explanation = "bounded-exhaustive enumeration of line histories x symbol sets on the real compiler, against a line-oriented reference preprocessor (stack of regions, define/undef state) written from the statement; plain index enumeration through the Family trait instead of stateright because the real preprocessor exposes no incremental state (the state is the line history)";
    m.quick_bound = "all sequences of length <= 5 and all well-nested sequences of length 6, x 8 symbol sets; expression trees depth <= 3, token strings <= 5 tokens; layouts on all sequences <= 2 lines; nesting depth 5; pairs of files <= 2 items, triples <= 1 item";
    m.thorough_bound = "all sequences of length <= 6 and all well-nested sequences of length 7, x 8 symbol sets; all well-nested sequences of length 8 x the 4 subsets of {A,B}; expression trees depth <= 4, token strings <= 6 tokens; layouts on all sequences <= 3 lines; nesting depth 6; pairs of files <= 3 items, triples <= 2 items";
    m.quick_cap_s = 120.0;
    m.thorough_cap_s = 900.0;
}


/// Chains `#if e0 / #elif e1 / ... / [#else] / #endif` with a different condition on every branch: exactly the
/// first branch whose condition holds is selected (the `#else` branch if none does), for every choice of 2..4
/// conditions from a menu of 8 and every valuation; a `#define` in a selected / unselected branch is tested after.
struct ElifChains {
    max_branches: usize,
}
const ELIF_CONDS: [&str; 8] = ["A", "B", "C", "!A", "!B", "!C", "A && B", "A || C"];
impl ElifChains {
    fn decode(&self, mut idx: u64) -> (Vec<usize>, bool) {
        let with_else = idx % 2 == 1;
        idx /= 2;
        let mut n = 2;
        let mut size = 64u64;
        while idx >= size {
            idx -= size;
            n += 1;
            size *= 8;
        }
        let mut v = vec![];
        for _ in 0..n {
            v.push((idx % 8) as usize);
            idx /= 8;
        }
        (v, with_else)
    }
    fn file(&self, idx: u64) -> FileSpec {
        let (conds, with_else) = self.decode(idx);
        let l = &PLAIN;
        let mut f = FileSpec::new(l);
        f.probe("P", l, false);
        for (i, c) in conds.iter().enumerate() {
            f.directive(&format!("{} {}", if i == 0 { "#if" } else { "#elif" }, ELIF_CONDS[*c]), l);
            f.probe("P", l, i % 2 == 0);
            if i == 1 {
                f.directive("#define D", l);
            }
        }
        if with_else {
            f.directive("#else", l);
            f.probe("P", l, true);
        }
        f.directive("#endif", l);
        f.directive("#if D", l);
        f.probe("P", l, false);
        f.directive("#endif", l);
        f.probe("P", l, true);
        f
    }
}
impl Family for ElifChains {
    fn name(&self) -> String {
        format!("elif-chains/2..{} branches x 8 conditions each x with/without #else x 8 symbol sets", self.max_branches)
    }
    fn len(&self) -> u64 {
        2 * (2..=self.max_branches as u32).map(|n| 8u64.pow(n)).sum::<u64>()
    }
    fn describe(&self, idx: u64) -> Value {
        json!({"file": self.file(idx).render(), "valuations": "all 8 subsets of {A,B,C}"})
    }
    fn run(&self, idx: u64) -> CaseOut {
        let f = self.file(idx);
        let mut out = CaseOut::new(hash_str(&format!("c06-elif-{idx}")));
        let mut st = Stats::default();
        for mask in 0..8u32 {
            check_files("elif-chains", std::slice::from_ref(&f), mask, &mut out, &mut st);
        }
        st.finish(&mut out);
        out.nontrivial = true;
        let (conds, e) = self.decode(idx);
        out.class = format!("branches={}{}", conds.len(), if e { "+else" } else { "" });
        out
    }
}


// ---------------------------------------------------------------------------------------------------------------
// The module line itself under conditionals: a file whose first selected block does not start at 1:1, a file from
// which nothing at all is selected.

pub struct ConditionalModule;
/// (lines; a line "P" is a probe `struct P<row> { x: Nope }`, "MX" / "MY" a module line)
const CM_FILES: [&[&str]; 8] = [
    &["#if A", "MX", "P", "#endif"],
    &["#if A", "MX", "#else", "MY", "#endif", "P"],
    &["#if A", "#if B", "MX", "#else", "MY", "#endif", "P", "#endif", ""],
    &["", "  ", "#if !A", "MX", "P", "#endif", "#if A", "MY", "P", "#endif"],
    &["#define C", "#if C && A", "MX", "#elif B", "MY", "#endif", "P"],
    &["#if A", "#endif", "#if B", "#endif"],
    &["#if A", "MX", "#endif", "#if A", "P", "#endif", "#if A && B", "P", "#endif"],
    &["#if A || B", "   MX", "#endif", "#if A", "   P", "#elif B", "P", "#endif"],
];
impl Family for ConditionalModule {
    fn name(&self) -> String {
        format!("conditional-module/{} files whose MODULE line stands under conditionals (nothing selected at all; the first selected block anywhere but at 1:1; two candidate module lines) x 4 symbol sets x LF / CRLF", CM_FILES.len())
    }
    fn len(&self) -> u64 {
        CM_FILES.len() as u64 * 4 * 2
    }
    fn describe(&self, idx: u64) -> Value {
        let (text, syms, _) = Self::build(idx);
        json!({"file": text, "symbols": syms})
    }
    fn run(&self, idx: u64) -> CaseOut {
        let (text, syms, lines) = Self::build(idx);
        let mut out = CaseOut::new(hash_str(&format!("cm{idx}")));
        out.validated = 1;
        out.nontrivial = true;
        let fam = "c06/conditional-module";
        // reference: which rows are selected (well-formed files only: these all are)
        let defined = |s: &str| syms.contains(&s) || s == "C";
        let mut stack: Vec<(bool, bool, bool)> = vec![]; // (parent active, this branch active, some branch taken)
        let mut selected: Vec<usize> = vec![];
        let eval = |cond: &str| -> bool {
            // the few forms used above
            match cond {
                "A" => defined("A"),
                "B" => defined("B"),
                "!A" => !defined("A"),
                "C && A" => defined("A"),
                "A && B" => defined("A") && defined("B"),
                "A || B" => defined("A") || defined("B"),
                other => panic!("condition {other:?} not in the table"),
            }
        };
        for (i, l) in lines.iter().enumerate() {
            let t = l.trim();
            let active = stack.iter().all(|(p, a, _)| *p && *a);
            if let Some(c) = t.strip_prefix("#if ") {
                let v = eval(c);
                stack.push((active, v, v));
            } else if let Some(c) = t.strip_prefix("#elif ") {
                let (p, _, taken) = stack.pop().unwrap();
                let v = !taken && eval(c);
                stack.push((p, v, taken || v));
            } else if t == "#else" {
                let (p, _, taken) = stack.pop().unwrap();
                stack.push((p, !taken, true));
            } else if t == "#endif" {
                stack.pop();
            } else if t.starts_with("#define") {
            } else if !t.is_empty() && active {
                selected.push(i);
            }
        }
        let exp_module: Option<&str> = selected.iter().find_map(|i| lines[*i].trim().strip_prefix("module "));
        let exp_probes: Vec<(String, usize, usize)> = selected
            .iter()
            .filter(|i| lines[**i].trim().starts_with("struct "))
            .map(|i| (format!("P{}", i + 1), i + 1, lines[*i].len() - lines[*i].trim_start().len() + 1))
            .collect();
        let n_modules = selected.iter().filter(|i| lines[**i].trim().starts_with("module ")).count();
        let r = guarded(|| {
            let mut options = SliceOptions::default();
            options.defined_symbols = syms.iter().map(|s| s.to_string()).collect();
            let state = slicec::compile_from_strings(&[text.as_str()], Some(&options));
            let f = &state.files[0];
            let module = f.module.as_ref().map(|m| {
                let m = m.borrow();
                (m.identifier.value.clone(), m.span.start.row, m.span.start.col)
            });
            let defs: Vec<(String, usize, usize)> = f
                .contents
                .iter()
                .map(|d| {
                    let e = d.borrow();
                    (e.identifier().to_owned(), e.span().start.row, e.span().start.col)
                })
                .collect();
            let diags: Vec<(String, bool, Option<(usize, usize)>)> = state.diagnostics.into_inner().iter().map(|d| (d.code().to_owned(), d.level() == DiagnosticLevel::Error, d.span().map(|s| (s.start.row, s.start.col)))).collect();
            (module, defs, diags)
        });
        let ctx = || format!("symbols {syms:?}\n--- file ---\n{text}");
        let (module, defs, diags) = match r {
            Ok(x) => x,
            Err((loc, msg)) => {
                out.violate(format!("{fam}/panic@{loc}"), format!("panic at {loc}: {msg}\n{}", ctx()));
                return out;
            }
        };
        out.class = format!("{}-modules:{}-probes", n_modules, exp_probes.len());
        if n_modules > 1 || (n_modules == 0 && !exp_probes.is_empty()) {
            // two module lines, or definitions without a module: an error of the parser, not of the preprocessor
            if !diags.iter().any(|d| d.1) {
                out.violate(format!("{fam}/ill-formed-selection-accepted"), ctx());
            }
            return out;
        }
        if n_modules == 0 {
            // nothing is selected: an empty file, no diagnostics
            if module.is_some() || !defs.is_empty() || !diags.is_empty() {
                out.violate(format!("{fam}/nothing-selected-but-something-parsed"), format!("module {module:?}, definitions {defs:?}, diagnostics {diags:?}\n{}", ctx()));
            }
            return out;
        }
        // exactly one module line and the probes behind it: only the E033 of each probe is reported
        let mi = *selected.iter().find(|i| lines[**i].trim().starts_with("module ")).unwrap();
        let exp_m = (exp_module.unwrap().to_string(), mi + 1, lines[mi].len() - lines[mi].trim_start().len() + 1);
        if module.as_ref() != Some(&exp_m) {
            out.violate(format!("{fam}/module-position"), format!("module expected {exp_m:?} (identifier, row, column of the keyword), observed {module:?}\n{}", ctx()));
        }
        if defs != exp_probes {
            out.violate(format!("{fam}/selected-lines"), format!("definitions expected {exp_probes:?}, observed {defs:?}\n{}", ctx()));
        }
        let e033: Vec<(usize, usize)> = diags.iter().filter(|d| d.0 == "E033").filter_map(|d| d.2).collect();
        let exp_e033: Vec<(usize, usize)> = exp_probes.iter().map(|(n, r, c)| (*r, c + format!("struct {n} {{ x: ").len())).collect();
        if e033 != exp_e033 || diags.iter().any(|d| d.1 && d.0 != "E033") {
            out.violate(format!("{fam}/diagnostics"), format!("expected one E033 at each of {exp_e033:?} and nothing else, observed {diags:?}\n{}", ctx()));
        }
        out
    }
}
impl ConditionalModule {
    fn build(idx: u64) -> (String, Vec<&'static str>, Vec<String>) {
        let f = CM_FILES[(idx % CM_FILES.len() as u64) as usize];
        let syms: Vec<&'static str> = [vec![], vec!["A"], vec!["B"], vec!["A", "B"]][((idx / CM_FILES.len() as u64) % 4) as usize].clone();
        let crlf = idx / (CM_FILES.len() as u64 * 4) == 1;
        let lines: Vec<String> = f
            .iter()
            .enumerate()
            .map(|(i, l)| {
                let t = l.trim_start();
                let indent = &l[..l.len() - t.len()];
                match t {
                    "MX" => format!("{indent}module X"),
                    "MY" => format!("{indent}module Y"),
                    "P" => format!("{indent}struct P{} {{ x: Nope }}", i + 1),
                    other => format!("{indent}{other}"),
                }
            })
            .collect();
        (lines.join(if crlf { "\r\n" } else { "\n" }), syms, lines)
    }
}

/// Symbols are compared as whole names, exactly: names that are prefixes of each other, differ in letter case, in a
/// digit or in an underscore are different symbols - on the command line, in #define / #undef and in conditions.
pub struct SymbolNames;
const SN_NAMES: [&str; 8] = ["Foo", "Foo_1", "foo_1", "Foo_12", "F", "FOO", "Fo", "Foo_"];
const SN_FORMS: u64 = 5;
impl SymbolNames {
    fn build(idx: u64) -> (FileSpec, Vec<&'static str>, String) {
        let d = SN_NAMES[(idx % 8) as usize];
        let t = SN_NAMES[((idx / 8) % 8) as usize];
        let form = (idx / 64) % SN_FORMS;
        let l = &PLAIN;
        let mut f = FileSpec::new(l);
        let mut syms: Vec<&'static str> = vec![];
        let what;
        match form {
            0 => {
                syms.push(d);
                what = format!("-D {d}, then #if {t}");
            }
            1 => {
                f.directive(&format!("#define {d}"), l);
                what = format!("#define {d}, then #if {t}");
            }
            2 => {
                // both on the command line, one of them undefined again in the file
                syms.push(d);
                syms.push(t);
                f.directive(&format!("#undef {d}"), l);
                what = format!("-D {d} -D {t}, #undef {d}, then #if {t}");
            }
            3 => {
                f.directive(&format!("#define {t}"), l);
                f.directive(&format!("#define {d}"), l);
                f.directive(&format!("#undef {d}"), l);
                what = format!("#define {t}, #define {d}, #undef {d}, then #if {t}");
            }
            _ => {
                syms.push(d);
                what = format!("-D {d}, then #if !{t} && ({d} || {t})");
            }
        }
        let cond = if form == 4 { format!("!{t} && ({d} || {t})") } else { t.to_string() };
        f.directive(&format!("#if {cond}"), l);
        f.probe("P", l, true);
        f.directive(&format!("#elif {d}"), l);
        f.probe("P", l, false);
        f.directive("#else", l);
        f.probe("P", l, false);
        f.directive("#endif", l);
        f.probe("P", l, false);
        (f, syms, what)
    }
}
impl Family for SymbolNames {
    fn name(&self) -> String {
        format!("symbol-names/8 x 8 names that are prefixes of each other or differ in case, a digit or an underscore ({SN_NAMES:?}) x 5 ways of defining one and testing the other (command line, #define, #undef of the neighbour, a compound condition)")
    }
    fn len(&self) -> u64 {
        64 * SN_FORMS
    }
    fn describe(&self, idx: u64) -> Value {
        let (f, syms, what) = Self::build(idx);
        json!({"case": what, "command_line_symbols": syms, "file": f.render()})
    }
    fn run(&self, idx: u64) -> CaseOut {
        let (f, syms, what) = Self::build(idx);
        let mut out = CaseOut::new(hash_str(&format!("c06sn{what}")));
        let mut st = Stats::default();
        check_files_with("symbol-names", std::slice::from_ref(&f), &syms, &mut out, &mut st);
        st.finish(&mut out);
        out.nontrivial = true;
        out.class = format!("form{}:{}", (idx / 64) % SN_FORMS, if idx % 8 == (idx / 8) % 8 { "same-name" } else { "other-name" });
        out
    }
}

/// A conditional in the MIDDLE of a definition: the branches hold fields, closing braces, the keyword of the
/// definition, parameters, pieces of a type, attributes and doc comment lines. The oracle is differential and has no
/// hand-written expectation: the reference preprocessor (above) says which rows are selected; the "twin" is the same
/// text with every directive row and every unselected row emptied (rows and columns of what remains are unchanged), so
/// it holds no directive at all. Both texts must give the same normalised syntax tree (every span included) and the
/// same diagnostics (code, level, message, span, notes).
pub struct SplitDefinitions;
const SD_FILES: [&[&str]; 12] = [
    &["module X", "struct S {", "#if A", "    a: int32,", "#elif B", "    a: string,", "#else", "    a: Nope,", "#endif", "    b: bool,", "}"],
    &["module X", "struct S {", "    a: int32,", "#if A", "}", "struct T {", "#endif", "    b: bool,", "}"],
    &["module X", "#if A", "compact struct S {", "#else", "struct S {", "#endif", "    a: int32,", "#if B", "    tag(1) b: bool?,", "#endif", "}"],
    &["module X", "enum E : uint8 {", "#if A", "    A = 1,", "#endif", "#if B", "    B = 1,", "#endif", "#if !A && (!B)", "    // nothing", "#endif", "}"],
    &["module X", "interface I {", "    op(", "#if A", "        a: int32,", "#endif", "#if B", "        b: string,", "#endif", "    ) ->", "#if A && B", "    (x: int32, y: int32)", "#else", "    bool", "#endif", "}"],
    &["module X", "/// Summary line.", "#if A", "/// Second line under A.", "#endif", "#if B", "[deprecated(\"b\")]", "#endif", "struct S {", "    /// doc of a", "#if A", "    a: int32,", "#else", "    [deprecated] a: int32,", "#endif", "}"],
    &["module X", "typealias T =", "#if A", "    Sequence<", "#else", "    Dictionary<int32,", "#endif", "    string", "#if B", "    ?", "#endif", "    >", "struct S { t: T }"],
    &["#if A", "module X", "#else", "module Y", "#endif", "struct S {", "#if B", "    this is not slice at all (((", "#endif", "    a: int32", "}"],
    &["module X", "struct S {", "#define C", "    a: int32,", "#if C && A", "    b: bool,", "#endif", "#undef C", "#if C", "    c: Nope,", "#endif", "#if B", "#define C", "#endif", "#if C", "    d: S,", "#endif", "}"],
    &["module X", "unchecked enum E : int32 {", "#if A", "#if B", "    AB = 3,", "#else", "    A = 1,", "#endif", "#elif B", "    B = 2,", "#endif", "}", "interface I { op() ", "#if A || B", "-> E?", "#endif", "}"],
    // inside an attribute keywords are plain identifiers: the branch boundary must not end that
    &["module X", "[foo::bar(", "#if A", "    struct,", "#endif", "    module", "#if B", "    , interface", ")]", "[deprecated(", "#endif", ")]", "struct S { a: int32 }"],
    &["module X", "struct S {", "    a: Sequence<", "#if A", "        [cs::type(\"List\")]", "#endif", "        int32", "#if B", "    >?,", "#else", "    >,", "#endif", "}"],
];
impl SplitDefinitions {
    fn build(idx: u64) -> (String, Vec<&'static str>, usize) {
        let n = SD_FILES.len() as u64;
        let t = (idx % n) as usize;
        let syms: Vec<&'static str> = [vec![], vec!["A"], vec!["B"], vec!["A", "B"]][((idx / n) % 4) as usize].clone();
        let eol = if (idx / (n * 4)) % 2 == 1 { "\r\n" } else { "\n" };
        let indent = ["", "  ", "\t"][((idx / (n * 8)) % 3) as usize];
        let lines: Vec<String> = SD_FILES[t].iter().map(|l| if l.starts_with('#') { format!("{indent}{l}") } else { l.to_string() }).collect();
        (lines.join(eol), syms, t)
    }
    fn observe(text: &str, syms: &[&str]) -> Result<(String, Vec<crate::model::run::DiagObs>, usize), (String, String)> {
        guarded(|| {
            let mut options = SliceOptions::default();
            options.defined_symbols = syms.iter().map(|s| s.to_string()).collect();
            let state = slicec::compile_from_strings(&[text], Some(&options));
            let tree = format!("{:#?}", crate::model::observe::files(&state));
            let n_defs = state.files.iter().map(|f| f.contents.len()).sum();
            let diags = state.diagnostics.into_inner().iter().map(crate::model::run::diag_obs).collect();
            (tree, diags, n_defs)
        })
    }
}
impl Family for SplitDefinitions {
    fn name(&self) -> String {
        format!("split-definitions/{} files in which conditionals (with #elif, nesting, #define / #undef in between) cut a definition into pieces - fields, the closing brace, the keyword, parameters and return types, pieces of a type, attributes and the inside of an attribute, doc comment lines, the module line - x 4 symbol sets x LF / CRLF x 3 indentations of the directives: same tree (all spans) and same diagnostics as the twin text in which the reference preprocessor emptied every directive and every unselected row", SD_FILES.len())
    }
    fn len(&self) -> u64 {
        SD_FILES.len() as u64 * 4 * 2 * 3
    }
    fn describe(&self, idx: u64) -> Value {
        let (text, syms, t) = Self::build(idx);
        json!({"template": t, "file": text, "symbols": syms})
    }
    fn run(&self, idx: u64) -> CaseOut {
        let (text, syms, t) = Self::build(idx);
        let mut out = CaseOut::new(hash_str(&format!("sd{idx}")));
        let fam = "c06/split-definitions";
        let start: BTreeSet<String> = syms.iter().map(|s| s.to_string()).collect();
        let r = reference(&text, &start);
        if !r.wellformed {
            out.violate(format!("{fam}/machinery-template-not-wellformed"), format!("template {t}"));
            return out;
        }
        // the twin: directive rows and unselected rows emptied (a '\r' at the end of a row stays)
        let twin: String = text
            .split('\n')
            .enumerate()
            .map(|(i, raw)| if r.kept_rows.contains(&(i + 1)) { raw.to_string() } else if raw.ends_with('\r') { "\r".to_string() } else { String::new() })
            .collect::<Vec<_>>()
            .join("\n");
        debug_assert!(!twin.contains('#'));
        let ctx = || format!("symbols {syms:?}\n--- file ---\n{text}\n--- twin (what the reference preprocessor keeps) ---\n{twin}");
        let (real, twin_obs) = match (Self::observe(&text, &syms), Self::observe(&twin, &[])) {
            (Ok(a), Ok(b)) => (a, b),
            (Err((loc, msg)), _) => {
                out.violate(format!("{fam}/panic@{loc}"), format!("panic at {loc}: {msg}\n{}", ctx()));
                return out;
            }
            (_, Err((loc, msg))) => {
                // the twin has no directive in it: whatever happens there is not about conditional compilation
                out.class = format!("twin-panics@{loc}:{}", truncate(&msg, 40));
                return out;
            }
        };
        out.validated = 1;
        out.steps = 2;
        out.nontrivial = r.nontrivial;
        out.class = format!("template{t}:{}-definitions:{}", twin_obs.2, if twin_obs.1.iter().any(|d| d.level == "error") { "errors" } else { "clean" });
        if real.1 != twin_obs.1 {
            out.violate(format!("{fam}/diagnostics-differ-from-the-selected-text"), format!("with the conditionals: {:#?}\nselected text alone: {:#?}\n{}", real.1, twin_obs.1, ctx()));
        }
        if real.0 != twin_obs.0 {
            let (a, b): (Vec<&str>, Vec<&str>) = (real.0.lines().collect(), twin_obs.0.lines().collect());
            let at = a.iter().zip(b.iter()).position(|(x, y)| x != y).unwrap_or(a.len().min(b.len()));
            let show = |v: &Vec<&str>| v[at.saturating_sub(6)..(at + 6).min(v.len())].join("\n");
            out.violate(format!("{fam}/tree-differs-from-the-selected-text"), format!("first difference at line {at} of the dumps\nwith the conditionals:\n{}\nselected text alone:\n{}\n{}", show(&a), show(&b), ctx()));
        }
        out
    }
}

pub fn families(tier: &str) -> Vec<Box<dyn Family>> {
    let quick = tier == "quick";
    let mut v: Vec<Box<dyn Family>> = vec![];
    v.push(Box::new(ConditionalModule));
    v.push(Box::new(SymbolNames));
    v.push(Box::new(SplitDefinitions));
    v.push(Box::new(ElifChains { max_branches: if quick { 3 } else { 4 } }));
    // small, cheap families first so that a wall cap can only cut the largest sequence family
    v.push(Box::new(ExprTrees { depth: if quick { 3 } else { 4 }, exprs: gen_exprs(if quick { 3 } else { 4 }) }));
    v.push(Box::new(ExprTokens { max_len: if quick { 5 } else { 6 } }));
    v.push(Box::new(BadForms));
    v.push(Box::new(Layouts { max_len: if quick { 2 } else { 3 } }));
    v.push(Box::new(FileSets { arity: 2, max_items: if quick { 2 } else { 3 }, n_items: 7 }));
    v.push(Box::new(FileSets { arity: 3, max_items: if quick { 1 } else { 2 }, n_items: 7 }));
    v.push(Box::new(FileSetsWithBad));
    v.push(Box::new(Nested { depth: if quick { 5 } else { 6 } }));
    for len in 0..=(if quick { 5 } else { 6 }) {
        v.push(Box::new(Seqs::all(len)));
    }
    if quick {
        v.push(Box::new(Seqs::wellnested(6, false)));
    } else {
        v.push(Box::new(Seqs::wellnested(7, false)));
        v.push(Box::new(Seqs::wellnested(8, true)));
    }
    v
}
