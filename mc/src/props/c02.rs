//! C02 — source-to-AST fidelity: the AST says exactly what the source says, whatever the layout.

use super::PropMeta;
use crate::engine::*;
use crate::model::run::*;
use crate::model::tree::*;
use crate::util::*;
use serde_json::Value;

pub fn meta(m: &mut PropMeta) {
    m.rule = "model programs are generated from a generative model of the grammar (40-construct definition alphabet: every definition kind with every modifier, members with tags/optionality/values/attributes/doc comments, nested anonymous types, aliases, escaped keyword identifiers; all construct sequences up to the depth bound in 4 module scopes; every type expression up to the nesting bound in 10 type positions; all well-formed enumerator value sequences of length <= 3; integer spellings in 3 bases with underscores and signs at range boundaries; all string literals up to the atom bound as attribute arguments; every attribute form in 12 positions; tiny programs under EVERY assignment of separators to their token gaps), rendered under layout strategies (9 separator kinds incl. comments, CRLF, tabs, multi-byte comments, no-space; optional commas none/between/trailing), compiled by the real compiler, and the AST observed through the public API is compared field by field with the model (module, file attributes, definition list in order, members, modifiers, tags, optionality, enumerator values, attributes with unescaped arguments, type structure with the bound definition of every name, doc comment text). distinct = distinct rendered inputs; non-trivial = the program has at least one member and one non-default feature (tag, optional, attribute, modifier, explicit value, nested or named type).";
    m.explanation = "bounded-exhaustive program x layout enumeration; the expected AST is known by construction (the model), so the oracle is independent of slicec's lexer and parser";
    m.quick_bound = "construct sequences: depth 1 x 30 layouts x 4 scopes, depth 2 x 6 layouts x 4 scopes, depth 3 with rotating layout/scope; type nesting 2; string atoms <= 3; per-gap layouts over the first 6 gaps";
    m.thorough_bound = "construct sequences: depth 3 x 6 layouts x 4 scopes, depth 4 (all 40^4, layout and scope rotate); type nesting 2; string atoms <= 4; per-gap layouts over the first 8 gaps";
}

pub struct Fidelity {
    pub inner: Box<dyn ProgFamily>,
}

fn nondefault(n: &Node) -> bool {
    let own = match n.kind {
        "attr" | "fileattr" | "doc" => true,
        "field" | "param" | "ret" => n.get("tag") != Some("none") || n.get("stream") == Some("true"),
        "type" => n.get("optional") == Some("true") || !n.get("is").unwrap_or("").starts_with("prim:"),
        "struct" | "enum" => n.get("compact") == Some("true") || n.get("unchecked") == Some("true"),
        "enumerator" => n.get("explicit") == Some("true") || n.get("has_field_list") == Some("true"),
        "operation" => n.get("idempotent") == Some("true"),
        _ => false,
    };
    own || n.children.iter().any(nondefault)
}
fn has_member(n: &Node) -> bool {
    matches!(n.kind, "field" | "operation" | "enumerator" | "alias") || n.children.iter().any(has_member)
}

impl Family for Fidelity {
    fn name(&self) -> String {
        self.inner.name()
    }
    fn len(&self) -> u64 {
        self.inner.len()
    }
    fn describe(&self, idx: u64) -> Value {
        describe_case(&self.inner.get(idx))
    }
    fn run(&self, idx: u64) -> CaseOut {
        let case = self.inner.get(idx);
        let fam = self.inner.name();
        let fam = fam.split('/').next().unwrap().to_string();
        let rendered = render_program(&case.program, &case.layout);
        let mut out = CaseOut::new(case_hash(&rendered));
        out.validated = 1;
        out.nontrivial = rendered.iter().any(|r| has_member(&r.tree) && nondefault(&r.tree));
        let expected: Vec<Node> = rendered.iter().map(|r| r.tree.clone()).collect();
        let texts: Vec<String> = rendered.iter().map(|r| r.text.clone()).collect();
        match compile_rendered(rendered, None) {
            Err((loc, msg)) => {
                out.class = "panic".into();
                out.violate(format!("c02/{fam}/panic@{loc}"), format!("compiling a well-formed program panicked at {loc}: {msg}\n--- input ---\n{}", texts.join("\n--- next file ---\n")));
            }
            Ok(c) => {
                let errs = c.errors();
                if !errs.is_empty() {
                    out.class = format!("rejected:{}", errs[0].code);
                    out.violate(
                        format!("c02/{fam}/well-formed-program-rejected/{}", errs[0].code),
                        format!("a well-formed program was rejected: {} {} at {:?}\n--- input ---\n{}", errs[0].code, errs[0].message, errs[0].span, texts.join("\n--- next file ---\n")),
                    );
                    return out;
                }
                if !case.may_warn {
                    if let Some(w) = c.warnings().first() {
                        out.violate(format!("c02/{fam}/unexpected-warning/{}", w.code), format!("unexpected warning {} {} at {:?}\n--- input ---\n{}", w.code, w.message, w.span, texts.join("\n--- next file ---\n")));
                    }
                }
                let mut nodes = 0;
                for (i, e) in expected.iter().enumerate() {
                    let o = match guarded(|| crate::model::observe::file(&c.files[i])) {
                        Ok(o) => o,
                        Err((loc, msg)) => {
                            out.violate(format!("c02/{fam}/observer-panic@{loc}"), format!("walking the AST through the public API panicked at {loc}: {msg}\n--- input ---\n{}", texts[i]));
                            continue;
                        }
                    };
                    nodes += o.count();
                    if let Some(d) = diff(e, &o) {
                        out.violate(
                            format!("c02/{fam}/ast-differs{}", d.path),
                            format!("file {i}: AST differs from the source at {}: {} expected {:?}, observed {:?}\n--- input ---\n{}", d.path_named, d.what, d.expected, d.observed, texts[i]),
                        );
                    }
                }
                out.steps = nodes as u64;
                out.class = format!("accepted:{}-nodes", (nodes / 10) * 10);
            }
        }
        out
    }
}

pub fn families(tier: &str) -> Vec<Box<dyn Family>> {
    crate::model::families::program_families(tier).into_iter().map(|f| Box::new(Fidelity { inner: f }) as Box<dyn Family>).collect()
}
