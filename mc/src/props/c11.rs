//! C11 — decoding untrusted bytes fails cleanly: no crash, no over-read, cost governed by the input length.

use super::c10;
use crate::alloc_count::measure;
use crate::engine::*;
use crate::refcodec::*;
use crate::util::*;
use serde_json::{json, Value};
use std::time::Instant;

pub fn decodable_types() -> Vec<Ty> {
    vec![
        Ty::Bool,
        Ty::U8,
        Ty::I8,
        Ty::U16,
        Ty::I16,
        Ty::U32,
        Ty::I32,
        Ty::U64,
        Ty::I64,
        Ty::F32,
        Ty::F64,
        Ty::VarInt(8),
        Ty::VarInt(16),
        Ty::VarInt(32),
        Ty::VarInt(64),
        Ty::VarUInt(8),
        Ty::VarUInt(16),
        Ty::VarUInt(32),
        Ty::VarUInt(64),
        Ty::VarUInt(0),
        Ty::Size,
        Ty::Str,
        seq(Ty::U8),
        seq(Ty::Bool),
        seq(Ty::Str),
        seq(seq(Ty::U8)),
        hmap(Ty::U8, Ty::U8),
        bmap(Ty::U8, Ty::U8),
        hmap(Ty::Str, Ty::Str),
        bmap(Ty::Str, seq(Ty::U8)),
        Ty::SkipTagged,
        Ty::GeneratedFile,
        Ty::Diagnostic,
        Ty::DiagLevel,
        Ty::Reply,
    ]
}

const SENTINEL: u8 = 0xD7;

/// One decode of `input` as `ty` by the real decoder vs. the reference decoder.
pub fn check_decode(ty: &Ty, input: &[u8], out: &mut CaseOut, fam: &str) {
    out.steps += 1;
    // the input is a sub-slice between sentinel regions: a value built from bytes outside it would show
    let mut backing = vec![SENTINEL; 16];
    backing.extend_from_slice(input);
    backing.extend_from_slice(&[SENTINEL; 16]);
    let slice = &backing[16..16 + input.len()];
    let mut rd = Rd { b: input, pos: 0 };
    let exp = ref_decode(ty, &mut rd).map(|v| (v, rd.pos));
    let t0 = Instant::now();
    let (res, bytes_alloc, largest) = measure(|| guarded(|| real_decode(ty, slice)));
    let dt = t0.elapsed();
    let tn = c10::ty_name(ty);
    let show = |b: &[u8]| format!("{:02x?}", b.iter().take(40).collect::<Vec<_>>());
    match res {
        Err((loc, msg)) => {
            out.violate(format!("{fam}/{tn}/panic@{loc}"), format!("decoding {} as {ty:?} panicked at {loc}: {msg}", show(input)));
        }
        Ok(Ok((v, consumed))) => match &exp {
            Ok((ev, ec)) => {
                if &v != ev {
                    out.violate(format!("{fam}/{tn}/value-mismatch"), format!("decoding {} as {ty:?}: got {}, reference {}", show(input), truncate(&format!("{v:?}"), 200), truncate(&format!("{ev:?}"), 200)));
                } else if consumed != *ec {
                    out.violate(format!("{fam}/{tn}/consumed-mismatch"), format!("decoding {} as {ty:?}: consumed {consumed}, reference {ec}", show(input)));
                }
            }
            Err(()) => {
                out.violate(format!("{fam}/{tn}/accepted-invalid"), format!("decoding {} as {ty:?} returned {} but the input is not a valid encoding (out-of-range bool/varint, invalid UTF-8, duplicate key or truncated)", show(input), truncate(&format!("{v:?}"), 200)));
            }
        },
        Ok(Err(e)) => {
            if let Ok((ev, _)) = &exp {
                out.violate(format!("{fam}/{tn}/rejected-valid"), format!("decoding {} as {ty:?} failed ({:?}) but the reference decodes {}", show(input), e.rendered, truncate(&format!("{ev:?}"), 200)));
            }
            match &e.rendered {
                Ok(s) if s.trim().is_empty() => out.violate(format!("{fam}/{tn}/error-renders-empty"), format!("decoding {} as {ty:?}: the error renders as an empty message", show(input))),
                Ok(_) => {}
                Err(p) => {
                    let loc = p.split(": ").next().unwrap_or("?");
                    out.violate(format!("{fam}/{tn}/error-not-renderable@{loc}"), format!("decoding {} as {ty:?}: rendering the returned error panicked: {p}", show(input)));
                }
            }
        }
    }
    let limit = 256 * input.len() as u64 + 4096;
    if bytes_alloc > limit {
        out.violate(
            format!("{fam}/{tn}/memory-governed-by-announced-size"),
            format!("decoding {} ({} bytes) as {ty:?} allocated {bytes_alloc} bytes (largest single request {largest}); bound 256*len+4KiB = {limit}", show(input), input.len()),
        );
    }
    if dt.as_millis() > 50 && bytes_alloc <= limit {
        // wall-clock is only a backstop (the deterministic cost measure is the allocation count): a slow
        // measurement may be scheduling noise, so it is repeated and only a reproducible excess is reported
        let mut best = dt;
        for _ in 0..5 {
            let t1 = Instant::now();
            let _ = guarded(|| real_decode(ty, slice));
            best = best.min(t1.elapsed());
        }
        if best.as_millis() > 250 {
            out.violate(format!("{fam}/{tn}/time"), format!("decoding {} as {ty:?} takes at least {:?} (best of 6 measurements)", show(input), best));
        }
    }
}

/// All byte strings of length <= L for every decodable type, chunked by (type, prefix).
pub struct AllBytes {
    pub max_len: usize,
}
impl AllBytes {
    fn chunks_per_type(&self) -> u64 {
        // chunk = fixed prefix of (max_len-1) bytes or shorter strings: index 0 = all strings shorter than max_len-1... keep simple:
        // chunk p in 0..256^(max_len-1): the strings p (as max_len-1 bytes) and p+b for every byte b; plus one chunk for shorter strings
        256u64.pow(self.max_len as u32 - 1) + 1
    }
}
impl Family for AllBytes {
    fn name(&self) -> String {
        format!("all-byte-strings/len<={}/{} types", self.max_len, decodable_types().len())
    }
    fn len(&self) -> u64 {
        decodable_types().len() as u64 * self.chunks_per_type()
    }
    fn describe(&self, idx: u64) -> Value {
        let per = self.chunks_per_type();
        let ty = &decodable_types()[(idx / per) as usize];
        let c = idx % per;
        json!({"type": format!("{ty:?}"), "chunk": if c == per - 1 { format!("all strings shorter than {}", self.max_len - 1) } else { format!("prefix {:0w$x} followed by nothing or any one byte", c, w = 2 * (self.max_len - 1)) }})
    }
    fn run(&self, idx: u64) -> CaseOut {
        let per = self.chunks_per_type();
        let types = decodable_types();
        let ty = &types[(idx / per) as usize];
        let c = idx % per;
        let mut out = CaseOut::new(hash_str(&format!("ab{}{idx}", self.max_len)));
        out.steps = 0;
        out.validated = 1;
        out.nontrivial = true;
        let fam = "c11/all-bytes";
        if c == per - 1 {
            // all strings of length < max_len-1
            let mut strings: Vec<Vec<u8>> = vec![vec![]];
            let mut layer: Vec<Vec<u8>> = vec![vec![]];
            for _ in 0..self.max_len.saturating_sub(2) {
                let mut next = vec![];
                for s in &layer {
                    for b in 0..=255u8 {
                        let mut t = s.clone();
                        t.push(b);
                        next.push(t);
                    }
                }
                strings.extend(next.iter().cloned());
                layer = next;
            }
            for s in strings {
                check_decode(ty, &s, &mut out, fam);
            }
        } else {
            let n = self.max_len - 1;
            let mut prefix = vec![0u8; n];
            let mut cc = c;
            for i in 0..n {
                prefix[i] = (cc & 0xff) as u8;
                cc >>= 8;
            }
            check_decode(ty, &prefix, &mut out, fam);
            let mut s = prefix.clone();
            s.push(0);
            for b in 0..=255u8 {
                s[n] = b;
                check_decode(ty, &s, &mut out, fam);
                if out.violations.len() > 8 {
                    break;
                }
            }
        }
        out.class = format!("{}:{}", c10::ty_name(ty), if out.violations.is_empty() { "agree" } else { "disagree" });
        dedup_violations(&mut out);
        out
    }
}

fn dedup_violations(out: &mut CaseOut) {
    let mut seen = std::collections::HashSet::new();
    out.violations.retain(|v| seen.insert(v.sig.clone()));
}

/// Announced-size family: a size prefix of every width announcing 0,1,2^6,2^14,2^28,2^30-1,2^61,2^62-1 followed
/// by 0..2 payload bytes.
pub struct AnnouncedSizes {
    cases: Vec<(Ty, Vec<u8>)>,
}
impl AnnouncedSizes {
    pub fn new() -> Self {
        let sizes: [u64; 10] = [0, 1, 63, 1 << 6, 1 << 14, 1 << 28, (1 << 30) - 1, 1 << 32, 1 << 61, (1 << 62) - 1];
        let mut cases = vec![];
        let types: Vec<Ty> = decodable_types().into_iter().filter(|t| matches!(t, Ty::Str | Ty::Seq(_) | Ty::HMap(..) | Ty::BMap(..) | Ty::Reply | Ty::GeneratedFile | Ty::SkipTagged | Ty::Diagnostic)).collect();
        for ty in types {
            for s in sizes {
                for width in [1usize, 2, 4, 8] {
                    let bits = width as u32 * 8 - 2;
                    if width < 8 && s >= (1u64 << bits) {
                        continue;
                    }
                    let code = match width {
                        1 => 0u64,
                        2 => 1,
                        4 => 2,
                        _ => 3,
                    };
                    let word = (s << 2) | code;
                    let prefix = word.to_le_bytes()[..width].to_vec();
                    for payload in [vec![], vec![0u8], vec![1u8], vec![0u8, 0], vec![1u8, 0x61], vec![0xffu8, 0xff]] {
                        let mut b = match ty {
                            // structs: the announced size sits behind the leading fields
                            Ty::Diagnostic => vec![0u8, 1],
                            Ty::SkipTagged => vec![4u8], // tag 1, then the size
                            _ => vec![],
                        };
                        b.extend_from_slice(&prefix);
                        b.extend_from_slice(&payload);
                        cases.push((ty.clone(), b));
                    }
                }
            }
        }
        AnnouncedSizes { cases }
    }
}
impl Family for AnnouncedSizes {
    fn name(&self) -> String {
        "announced-sizes/size prefix of every width announcing 0..2^62-1 followed by 0-2 payload bytes".into()
    }
    fn len(&self) -> u64 {
        self.cases.len() as u64
    }
    fn hang_secs(&self) -> f64 {
        30.0
    }
    fn describe(&self, idx: u64) -> Value {
        let (ty, b) = &self.cases[idx as usize];
        json!({"type": format!("{ty:?}"), "bytes": format!("{b:02x?}")})
    }
    fn run(&self, idx: u64) -> CaseOut {
        let (ty, b) = &self.cases[idx as usize];
        let mut out = CaseOut::new(hash_str(&format!("{ty:?}{b:?}")));
        out.steps = 0;
        out.validated = 1;
        out.nontrivial = b.len() > 1;
        check_decode(ty, b, &mut out, "c11/announced");
        out.class = format!("{}:{}", c10::ty_name(ty), if out.violations.is_empty() { "agree" } else { "disagree" });
        out
    }
}

/// Every truncation and every single-byte substitution (all 255 other values, every position) of valid encodings.
pub struct Corruptions {
    corpus: Vec<(Ty, Vec<u8>)>,
}
impl Corruptions {
    pub fn new(max_len: usize) -> Self {
        let mut corpus = vec![];
        let mut seen = std::collections::HashSet::new();
        for ty in c10::collection_types().into_iter().chain([Ty::Str]) {
            if !decodable_types().contains(&ty) && !matches!(ty, Ty::Seq(_) | Ty::HMap(..) | Ty::BMap(..)) {
                continue;
            }
            let vals: Vec<V> = if ty == Ty::Str {
                ["", "a", "é", "ab€", "😀x"].iter().map(|s| V::Str(s.to_string())).collect()
            } else {
                c10::Collections::new(4).cases_for(&ty)
            };
            for v in vals {
                let bytes = match &ty {
                    Ty::HMap(k, val) => {
                        let V::Map(es) = &v else { unreachable!() };
                        ref_encode_map_entries(k, val, es).map(|(mut p, e)| {
                            for x in e {
                                p.extend(x);
                            }
                            p
                        })
                    }
                    _ => ref_encode(&ty, &v),
                };
                if let Some(b) = bytes {
                    if b.len() <= max_len && b.len() >= 2 && seen.insert((ty.clone(), b.clone())) {
                        corpus.push((ty.clone(), b));
                    }
                }
            }
        }
        // generator replies
        let reply_ok: Vec<u8> = {
            let mut b = vec![];
            b.push(1 << 2); // one generated file
            b.extend([3 << 2, b'a', b'.', b'x']);
            b.extend([2 << 2, b'h', b'i']);
            b.push(0xfc); // tag end marker (-1 as varint)
            b.push(1 << 2); // one diagnostic
            b.push(1); // has source
            b.push(2); // level error
            b.extend([1 << 2, b'm']);
            b.extend([1 << 2, b's']);
            b.push(0xfc);
            b
        };
        corpus.push((Ty::Reply, reply_ok.clone()));
        corpus.push((Ty::GeneratedFile, reply_ok[1..10].to_vec()));
        corpus.push((Ty::Diagnostic, reply_ok[10..].to_vec())); // (from the has-source byte)
        corpus.push((Ty::SkipTagged, vec![4, 2 << 2, 9, 9, 8, 0, 0xfc]));
        Corruptions { corpus }
    }
}
impl c10::Collections {
    pub fn cases_for(&self, ty: &Ty) -> Vec<V> {
        self.all_cases().iter().filter(|(t, _)| t == ty).map(|(_, v)| v.clone()).collect()
    }
}
impl Family for Corruptions {
    fn name(&self) -> String {
        "corruptions/every truncation and every single-byte substitution of valid encodings".into()
    }
    fn len(&self) -> u64 {
        self.corpus.len() as u64
    }
    fn describe(&self, idx: u64) -> Value {
        let (ty, b) = &self.corpus[idx as usize];
        json!({"type": format!("{ty:?}"), "valid_encoding": format!("{b:02x?}"), "mutations": "every proper prefix; every position x every other byte value"})
    }
    fn run(&self, idx: u64) -> CaseOut {
        let (ty, b) = &self.corpus[idx as usize];
        let mut out = CaseOut::new(hash_str(&format!("corr{ty:?}{b:?}")));
        out.steps = 0;
        out.validated = 1;
        out.nontrivial = true;
        let fam = "c11/corrupt";
        check_decode(ty, b, &mut out, fam);
        for n in 0..b.len() {
            check_decode(ty, &b[..n], &mut out, fam);
        }
        let mut m = b.clone();
        for pos in 0..b.len() {
            for val in 0..=255u8 {
                if val != b[pos] {
                    m[pos] = val;
                    check_decode(ty, &m, &mut out, fam);
                }
            }
            m[pos] = b[pos];
            if out.violations.len() > 40 {
                break;
            }
        }
        dedup_violations(&mut out);
        out.class = format!("{}:{}", c10::ty_name(ty), if out.violations.is_empty() { "agree" } else { "disagree" });
        out
    }
}


/// "... so that in the compiler a malformed generator reply becomes a diagnostic": every truncation and every
/// single-byte substitution (by 0x00, 0x01, 0x7f, 0x80, 0xff, byte+1, byte-4, byte+4: the last two shorten / lengthen
/// a one-byte size prefix by one, so that a string ends inside a multi-byte character) of a valid reply with two files and two
/// diagnostics is sent to the real slicec binary by a fake generator.  The reference decoder says whether a reply
/// decodes; if it does not, slicec must end with an error diagnostic and a non-zero exit status (no crash, no
/// hang, no silence); if it does (and nothing follows it), slicec must accept it.
pub struct RepliesThroughTheCompiler {
    base: Vec<u8>,
}
impl RepliesThroughTheCompiler {
    pub fn new() -> Self {
        use crate::proc::{encode_reply, rfile, RDiag};
        let base = encode_reply(&[rfile("a.txt", "A\n"), rfile("sub-b.txt", "")], &[RDiag { level: 1, message: "w é".into(), source: Some("src".into()) }, RDiag { level: 2, message: "".into(), source: None }]);
        RepliesThroughTheCompiler { base }
    }
    fn reply(&self, idx: u64) -> Vec<u8> {
        let n = self.base.len() as u64;
        if idx <= n {
            return self.base[..idx as usize].to_vec(); // every truncation, the full reply last
        }
        let k = idx - n - 1;
        let (pos, which) = ((k / 8) as usize, k % 8);
        let mut v = self.base.clone();
        v[pos] = match which {
            0 => 0x00,
            1 => 0x01,
            2 => 0x7f,
            3 => 0x80,
            4 => 0xff,
            5 => v[pos].wrapping_add(1),
            6 => v[pos].wrapping_sub(4),
            _ => v[pos].wrapping_add(4),
        };
        v
    }
}
impl Family for RepliesThroughTheCompiler {
    fn name(&self) -> String {
        format!("replies-through-the-compiler/every truncation and 8 substitutions at every byte of a valid {}-byte reply, sent to the real slicec binary", self.base.len())
    }
    fn len(&self) -> u64 {
        self.base.len() as u64 * 9 + 1
    }
    fn hang_secs(&self) -> f64 {
        120.0
    }
    fn describe(&self, idx: u64) -> Value {
        json!({"reply_hex": crate::proc::hex(&self.reply(idx))})
    }
    fn run(&self, idx: u64) -> CaseOut {
        use crate::proc::{decode_reply, run, Gen, Install, Node, Scenario, Script, Step};
        let reply = self.reply(idx);
        let mut out = CaseOut::new(hash_str(&format!("c11reply{idx}")));
        out.validated = 1;
        out.nontrivial = true;
        let fam = "c11/reply-through-the-compiler";
        let decoded = decode_reply(&reply);
        let valid = matches!(&decoded, Some((_, _, used)) if *used == reply.len());
        let trailing = matches!(&decoded, Some((_, _, used)) if *used < reply.len());
        let mut sc = Scenario::default();
        sc.tree.push(("a.slice".into(), Node::File(b"module M\nstruct S {}\n".to_vec())));
        sc.tree.push(("out".into(), Node::Dir));
        sc.gens.push(Gen { name: "g".into(), install: Install::Script(Script(vec![Step::ReadAll, Step::Stdout(reply.clone()), Step::Exit(0)])) });
        sc.argv = vec!["a.slice".into(), "-G".into(), "{gen0}".into(), "-O".into(), "out".into(), "--disable-color".into()];
        let o = run(&sc, std::time::Duration::from_secs(30));
        let desc = || format!("reply {} ({})\nexit {:?} signal {:?}\nstderr {}", crate::proc::hex(&reply), if valid { "decodes" } else if trailing { "decodes with trailing bytes" } else { "does not decode" }, o.exit_code, o.signal, truncate(&o.stderr_text(), 500));
        if o.timed_out || o.signal.is_some() || o.panic_location().is_some() {
            out.violate(format!("{fam}/crash-or-hang"), desc());
            return out;
        }
        let errors = o.error_lines().len();
        out.class = format!("{}:exit{:?}", if valid { "valid" } else if trailing { "trailing" } else { "malformed" }, o.exit_code);
        if trailing {
            return out; // a valid reply followed by more bytes: the statement does not say (C18 SOFT-1)
        }
        if !valid && (o.exit_code == Some(0) || errors == 0) {
            out.violate(format!("{fam}/malformed-reply-did-not-become-a-diagnostic"), desc());
        }
        if valid {
            // a path made unusable by the substitution (NUL, '/') may legitimately fail to be written
            let paths_plain = decoded.as_ref().map_or(false, |(f, _, _)| f.iter().all(|x| !x.path.is_empty() && x.path.chars().all(|c| c.is_ascii_alphanumeric() || c == '.' || c == '-')));
            // (a well-formed reply in which the generator itself reports an error - a diagnostic of level 2 - is a
            // generator that failed: since d28b340 slicec says so, and C07 demands it)
            let reports_error = decoded.as_ref().map_or(false, |(_, d, _)| d.iter().any(|x| x.level == 2));
            if paths_plain && !reports_error && (o.exit_code != Some(0) || errors > 0) {
                out.violate(format!("{fam}/valid-reply-rejected"), desc());
            }
            if reports_error && (o.exit_code == Some(0) || errors == 0) {
                out.violate(format!("{fam}/error-reported-by-the-generator-ignored"), desc());
            }
        }
        out
    }
}


// ------------------------------------------------------------------------------------------------------------
// Tagged-field blocks with tags of every width and fields of non-trivial sizes, each followed by a VALID rest (real
// and reference only disagree about the tag if everything after it is well-formed)

pub struct TaggedFields {
    cases: Vec<(Ty, Vec<u8>, String)>,
}
fn enc_varint_w(v: i128, w: usize) -> Vec<u8> {
    let code = [0u8, 0, 1, 0, 2, 0, 0, 0, 3][w];
    let x = ((v << 2) | code as i128) as u64;
    x.to_le_bytes()[..w].to_vec()
}
fn varint_fits(v: i128, w: usize) -> bool {
    let bits = (w * 8 - 2) as u32;
    v >= -(1i128 << (bits - 1)) && v < (1i128 << (bits - 1))
}
impl TaggedFields {
    pub fn new() -> Self {
        let tags: [i128; 16] = [0, 1, 31, 32, -33, 8191, 8192, -8193, (1 << 29) - 1, 1 << 29, i32::MAX as i128, i32::MAX as i128 + 1, i32::MIN as i128, i32::MIN as i128 - 1, (1 << 34) - 1, (1i128 << 61) - 1];
        let mut cases = vec![];
        for (ty, prefix) in [(Ty::SkipTagged, vec![]), (Ty::GeneratedFile, vec![0u8, 0]), (Ty::Diagnostic, vec![0u8, 1, 0])] {
            for tag in tags {
                for w in [1usize, 2, 4, 8] {
                    if !varint_fits(tag, w) {
                        continue;
                    }
                    for fsize in [0usize, 1, 3, 63, 64] {
                        for tail in 0..3 {
                            let mut b = prefix.clone();
                            b.extend(enc_varint_w(tag, w));
                            b.extend(crate::proc::enc_size(fsize as u64));
                            b.extend(std::iter::repeat(0xA5).take(fsize));
                            match tail {
                                0 => b.push(0xfc),
                                1 => {
                                    b.extend(enc_varint_w(7, 2));
                                    b.extend(crate::proc::enc_size(2));
                                    b.extend([1, 2]);
                                    b.push(0xfc);
                                }
                                _ => {} // the end marker is missing
                            }
                            cases.push((ty.clone(), b, format!("tag {tag} written in {w} byte(s), field of {fsize} byte(s), tail {}", ["end marker", "a second field, end marker", "no end marker"][tail])));
                        }
                    }
                }
            }
        }
        TaggedFields { cases }
    }
}
impl Family for TaggedFields {
    fn name(&self) -> String {
        format!("tagged-fields/{} blocks: 16 tags (incl. one below / above every size class and the int32 range) x every width that can hold them x field sizes 0, 1, 3, 63, 64 x 3 tails, decoded by skip-tagged-fields and at the end of GeneratedFile and Diagnostic", self.cases.len())
    }
    fn len(&self) -> u64 {
        self.cases.len() as u64
    }
    fn describe(&self, idx: u64) -> Value {
        let (ty, b, what) = &self.cases[idx as usize];
        json!({"type": format!("{ty:?}"), "bytes": format!("{:02x?}", b.iter().take(24).collect::<Vec<_>>()), "length": b.len(), "what": what})
    }
    fn run(&self, idx: u64) -> CaseOut {
        let (ty, b, _) = &self.cases[idx as usize];
        let mut out = CaseOut::new(hash_str(&format!("tf{idx}")));
        out.nontrivial = true;
        out.validated = 1;
        check_decode(ty, b, &mut out, "c11/tagged-fields");
        out.class = format!("{}:{}", c10::ty_name(ty), if out.violations.is_empty() { "agree" } else { "violation" });
        out
    }
}

// ------------------------------------------------------------------------------------------------------------
// Variable-length integers decoded into targets that are not the matching primitive: the public bound is only
// `T: TryFrom<i64>` / `TryFrom<u64>`

pub struct ExoticTargets;
#[derive(Debug)]
struct Zst;
#[derive(Debug)]
struct Wide(#[allow(dead_code)] [u64; 3]);
#[derive(Debug)]
struct Odd(#[allow(dead_code)] [u8; 3]);
macro_rules! never_converts {
    ($t:ty) => {
        impl TryFrom<i64> for $t {
            type Error = ();
            fn try_from(_: i64) -> Result<Self, ()> {
                Err(())
            }
        }
        impl TryFrom<u64> for $t {
            type Error = ();
            fn try_from(_: u64) -> Result<Self, ()> {
                Err(())
            }
        }
    };
}
never_converts!(Zst);
never_converts!(Wide);
never_converts!(Odd);
impl Family for ExoticTargets {
    fn name(&self) -> String {
        "exotic-varint-targets/all byte strings of length <= 2 (and the 4- and 8-byte encodings of 5 values) decoded as varint and as varuint into a zero-sized, a 3-byte and a 24-byte target type whose conversion always fails, and into the primitive of the other signedness".into()
    }
    fn len(&self) -> u64 {
        258
    }
    fn describe(&self, idx: u64) -> Value {
        json!({"first_byte_or_group": idx, "targets": ["zero-sized", "3 bytes", "24 bytes", "u32 for varint", "i32 for varuint"]})
    }
    fn run(&self, idx: u64) -> CaseOut {
        use slice_codec::decoder::Decoder;
        let mut out = CaseOut::new(hash_str(&format!("exo{idx}")));
        out.nontrivial = true;
        out.steps = 0;
        let mut inputs: Vec<Vec<u8>> = vec![];
        if idx < 256 {
            inputs.push(vec![idx as u8]);
            for b in 0..=255u8 {
                inputs.push(vec![idx as u8, b]);
            }
        } else {
            for v in [0i128, -1, 1 << 20, -(1 << 28), (1 << 40) + 3] {
                inputs.push(enc_varint_w(v, if idx == 256 { 4 } else { 8 }));
            }
        }
        for input in &inputs {
            macro_rules! one {
                ($t:ty, $name:literal, $never:expr) => {{
                    for signed in [true, false] {
                        out.steps += 1;
                        let r = guarded(|| {
                            let mut d = Decoder::from(&input[..]);
                            let r: Result<$t, _> = if signed { d.decode_varint::<$t>() } else { d.decode_varuint::<$t>() };
                            r.map(|_| ()).map_err(|e| guarded(|| e.to_string()))
                        });
                        let what = || format!("decoding {:02x?} as {} into {}", input, if signed { "varint" } else { "varuint" }, $name);
                        match r {
                            Err((loc, msg)) => out.violate(format!("c11/exotic-varint-targets/panic@{loc}"), format!("{} panicked at {loc}: {msg}", what())),
                            Ok(Ok(())) => {
                                if $never {
                                    out.violate("c11/exotic-varint-targets/accepted-although-the-conversion-fails", what());
                                }
                            }
                            Ok(Err(Err((loc, msg)))) => out.violate(format!("c11/exotic-varint-targets/error-not-renderable@{loc}"), format!("{}: rendering the error panicked: {msg}", what())),
                            Ok(Err(Ok(s))) => {
                                if s.trim().is_empty() {
                                    out.violate("c11/exotic-varint-targets/error-renders-empty", what());
                                }
                            }
                        }
                    }
                }};
            }
            one!(Zst, "a zero-sized type", true);
            one!(Odd, "a 3-byte type", true);
            one!(Wide, "a 24-byte type", true);
            one!(u32, "u32", false);
            one!(i32, "i32", false);
        }
        dedup_violations(&mut out);
        out.class = if out.violations.is_empty() { "clean".into() } else { "violation".into() };
        out
    }
}

// ------------------------------------------------------------------------------------------------------------
// "Every error it returns can be rendered as a message": the inputs of the other families reach only some of the
// error shapes (since the reservation is bounded by what is left of the input, a decoder can no longer be made to
// fail an allocation with 90 bytes). Here every constructible shape is rendered - built directly over a grid of
// field values, with and without a source, and obtained from the real API where it can produce one.

pub struct EveryErrorRenders;
const ER_SIZES: [usize; 5] = [0, 1, 255, 1 << 32, usize::MAX];
const ER_VALUES: [i128; 5] = [0, -1, i64::MAX as i128 + 1, i128::MIN, i128::MAX];
impl EveryErrorRenders {
    fn build(idx: u64) -> (String, slice_codec::Error) {
        use slice_codec::{Error, ErrorKind, InvalidDataErrorKind};
        let shape = idx % 9;
        let a = ER_SIZES[((idx / 9) % 5) as usize];
        let b = ER_SIZES[((idx / 45) % 5) as usize];
        let v = ER_VALUES[((idx / 9) % 5) as usize];
        let w = ER_VALUES[((idx / 45) % 5) as usize];
        let source = (idx / 225) % 3;
        let try_reserve_error = || Vec::<u8>::new().try_reserve(usize::MAX).unwrap_err();
        let (what, kind): (String, ErrorKind) = match shape {
            0 => (format!("UnexpectedEob({a}, {b})"), ErrorKind::UnexpectedEob { requested: a, remaining: b }),
            1 => (format!("InvalidReservation(len {a}, {b}..{a})"), ErrorKind::InvalidReservation { buffer_len: a, reserved_range: b..a }),
            2 => ("AllocationError".into(), ErrorKind::AllocationError(try_reserve_error())),
            3 => (format!("AllocationLimitReached({a}, {b})"), ErrorKind::AllocationLimitReached { requested: a, remaining: b }),
            4 => (format!("IllegalValue(Some({v}))"), InvalidDataErrorKind::IllegalValue { desc: "a description", value: Some(v) }.into()),
            5 => ("IllegalValue(None)".into(), InvalidDataErrorKind::IllegalValue { desc: "", value: None }.into()),
            6 => (format!("OutOfRange({v}, {w})"), InvalidDataErrorKind::OutOfRange { value: v, min: w, max: v, typename: "varint62" }.into()),
            7 => ("InvalidString".into(), InvalidDataErrorKind::InvalidString(String::from_utf8(vec![b'a', 0xFF, 0xFE, (a & 0x7F) as u8]).unwrap_err()).into()),
            _ => ("from TryFromIntError".into(), {
                let e: Error = u8::try_from(a.max(256)).unwrap_err().into();
                return (format!("from TryFromIntError, source {source}"), if source == 0 { e } else { Error::new_with_source(InvalidDataErrorKind::IllegalValue { desc: "wrapped", value: None }.into(), e) });
            }),
        };
        let e = match source {
            0 => Error::new(kind),
            1 => Error::new_with_source(kind, std::fmt::Error),
            // an error of this crate that has a source itself, as the source
            _ => Error::new_with_source(kind, Error::new_with_source(ErrorKind::AllocationError(try_reserve_error()), std::io::Error::other("the innermost cause\nwith two lines"))),
        };
        (format!("{what}, source {source}"), e)
    }
}
impl Family for EveryErrorRenders {
    fn name(&self) -> String {
        "every-error-renders/9 error shapes (every ErrorKind and InvalidDataErrorKind variant, an integer conversion) x 5 x 5 field values (0, 1, 255, 2^32, usize::MAX; 0, -1, 2^63, i128::MIN, i128::MAX) x {no source, a source, a source that has a source} built directly, and 6 errors obtained from the real API (huge reservations, foreign reservations, reads past the end, invalid UTF-8): Display, Debug and source() end normally and the message is not empty".into()
    }
    fn len(&self) -> u64 {
        9 * 25 * 3 + 6
    }
    fn describe(&self, idx: u64) -> Value {
        if idx < 675 {
            json!({"error": Self::build(idx).0})
        } else {
            json!({"error_from_the_api": idx - 675})
        }
    }
    fn run(&self, idx: u64) -> CaseOut {
        use slice_codec::buffer::slice::{SliceInputSource, SliceOutputTarget};
        use slice_codec::buffer::vec::VecOutputTarget;
        use slice_codec::buffer::{InputSource, OutputTarget};
        let mut out = CaseOut::new(hash_str(&format!("c11er{idx}")));
        out.validated = 1;
        out.nontrivial = true;
        let r = guarded(|| {
            let (what, e): (String, slice_codec::Error) = if idx < 675 {
                Self::build(idx)
            } else {
                match idx - 675 {
                    0 => {
                        let mut v = vec![1u8, 2, 3];
                        let mut t = VecOutputTarget::from(&mut v);
                        ("reserve_space(usize::MAX) on a vector".into(), t.reserve_space(usize::MAX).err().expect("must fail"))
                    }
                    1 => {
                        let mut buf = [0u8; 4];
                        let mut t = SliceOutputTarget::from(&mut buf[..]);
                        ("reserve_space(usize::MAX) on a slice".into(), t.reserve_space(usize::MAX).err().expect("must fail"))
                    }
                    2 => {
                        // a reservation made on a longer target, used on a shorter one
                        let mut long = [0u8; 16];
                        let mut tl = SliceOutputTarget::from(&mut long[..]);
                        tl.write_bytes_exact(&[0; 8]).unwrap();
                        let mut res = tl.reserve_space(8).unwrap();
                        let mut short = [0u8; 4];
                        let mut ts = SliceOutputTarget::from(&mut short[..]);
                        ("a foreign reservation on a slice".into(), ts.write_bytes_into_reserved_exact(&mut res, &[1, 2]).err().expect("must fail"))
                    }
                    3 => {
                        let mut long = vec![0u8; 8];
                        let mut res = {
                            let mut tl = VecOutputTarget::from(&mut long);
                            tl.reserve_space(8).unwrap()
                        };
                        let mut short = vec![];
                        let mut ts = VecOutputTarget::from(&mut short);
                        ("a foreign reservation on a vector".into(), ts.write_bytes_into_reserved_exact(&mut res, &[1, 2]).err().expect("must fail"))
                    }
                    4 => {
                        let data = [1u8, 2];
                        let mut src = SliceInputSource::from(&data[..]);
                        let mut dest = [0u8; 9];
                        ("a read past the end".into(), src.read_bytes_into_exact(&mut dest).err().expect("must fail"))
                    }
                    _ => {
                        let data = [0x0Cu8, b'a', 0xFF, 0xFE];
                        let mut d = slice_codec::decoder::Decoder::from(&data[..]);
                        ("a string that is not UTF-8".into(), d.decode::<String>().err().expect("must fail"))
                    }
                }
            };
            let shown = e.to_string();
            let debug = format!("{e:?}");
            let mut depth = 0;
            let mut cur: Option<&(dyn std::error::Error + 'static)> = std::error::Error::source(&e);
            while let Some(c) = cur {
                let _ = c.to_string();
                depth += 1;
                cur = c.source();
            }
            let _ = format!("{}", e.kind());
            (what, shown, debug, depth)
        });
        match r {
            Err((loc, msg)) => out.violate(format!("c11/every-error-renders/panic@{loc}"), format!("rendering panicked at {loc}: {msg}; case {:?}", self.describe(idx))),
            Ok((what, shown, debug, depth)) => {
                if shown.trim().is_empty() || debug.trim().is_empty() {
                    out.violate("c11/every-error-renders/empty-message", format!("{what}: Display gives {shown:?}, Debug gives {debug:?}"));
                }
                out.class = format!("{}:{}lines:sources{depth}", what.split(|c| c == '(' || c == ',').next().unwrap_or(""), shown.lines().count().min(4));
            }
        }
        out
    }
}

pub fn families(tier: &str) -> Vec<Box<dyn Family>> {
    let quick = tier == "quick";
    vec![
        Box::new(EveryErrorRenders),
        Box::new(TaggedFields::new()),
        Box::new(ExoticTargets),
        Box::new(AnnouncedSizes::new()),
        Box::new(RepliesThroughTheCompiler::new()),
        Box::new(Corruptions::new(if quick { 12 } else { 24 })),
        Box::new(AllBytes { max_len: if quick { 2 } else { 3 } }),
    ]
}
