//! C16 — doc comments keep their text, tags and links.

use super::PropMeta;
use crate::engine::*;
use crate::model::ast::*;
use crate::model::doc;
use crate::model::print::*;
use crate::model::resolve::*;
use crate::model::run::*;
use crate::model::tree::*;
use crate::util::*;
use serde_json::{json, Value};

pub fn meta(m: &mut PropMeta) {
    m.rule = "model comments: all sequences of up to 3 (quick) / 4 (thorough) overview lines over the line alphabet {text, link at start / middle / end, blank, whitespace-only} x indentation {none, space, two spaces, tab, U+3000, NBSP} (mixed-width indentation included); block tags @param x / @returns / @returns x / @see T (x a parameter, a return member, a name that exists nowhere, a name of the OTHER list of the same operation, the placeholder name of an unnamed return value) with inline message present / absent / link and 0..2 continuation lines, in all orders of up to 3 tags, after 0..1 overview lines; every comment form in every commentable position (struct, field, interface, operation, enum, enumerator, enumerator field, custom, alias); link and @see targets of every kind and scope distance (own member, sibling, member paths, enclosing / outer module, global '::', other file, parameter, primitive, module, missing) from every position; the malformed catalogue (unknown tag, '@' alone, missing '}', inline @param, block @link, stray symbol, text after @see, missing identifier), each alone and next to a healthy sibling comment. Oracle: reference reading of the raw lines written from the statement (common indentation in characters removed, line breaks kept, tags with identifiers in order, links bound by the outward scope search starting at the documented element, aliases not flattened): the whole observed AST including every comment equals the model; malformed => the comment is dropped with a MalformedDocComment warning; ill-fitting tags => IncorrectDocComment warning; unresolvable links => BrokenDocLink warning; never an Error; documented element and siblings still present. non-trivial = the comment has an indented line, a link or a tag; distinct = distinct rendered programs.";
    m.explanation = "bounded-exhaustive comment-shape x position x link-target enumeration against a reference comment reader";
    m.quick_bound = "overview <= 3 lines; <= 3 block tags; 22 link targets x 9 positions x {link, see}";
    m.thorough_bound = "overview <= 4 lines; <= 3 block tags; same link product";
}

pub const N_POSITIONS: usize = 9;

/// The universe every documented element lives in; the element at `pos` carries `lines`.
/// Layout of case `idx`: single spaces, CRLF line ends, one token per line (LF) in rotation.
fn rot_layout(idx: u64) -> Layout {
    Layout::uniform([Sep::Space, Sep::CrLf, Sep::Newline][(idx % 3) as usize], Commas::None)
}

fn files_of(p: &Program, layout: &Layout) -> Vec<String> {
    render_program(p, layout).into_iter().map(|r| r.text).collect()
}

pub fn place_doc(pos: usize, lines: &[String], sibling_doc: bool) -> Program {
    place_docs(&[(pos, lines)], sibling_doc)
}

/// The same universe with several documented elements (position, lines).
pub fn place_docs(docs: &[(usize, &[String])], sibling_doc: bool) -> Program {
    let pos = docs[0].0;
    let i32t = || MType::prim("int32");
    let mut outer = MFile::module("Outer");
    outer.defs.push(st("OS", vec![MField::new("of", i32t())]));
    // names that are shadowed along a scope chain: Outer::IS next to Outer::Inner::IS, and (below) a field named IS, a
    // parameter named OS and an enumerator named IC inside the documented elements
    outer.defs.push(st("IS", vec![MField::new("outer_f", i32t())]));
    let mut z = MFile::module("Z");
    z.defs.push(st("ZS", vec![]));
    let mut f = MFile::module("Outer::Inner");
    // fixed link targets
    f.defs.push(st("IS", vec![MField::new("f", i32t())]));
    f.defs.push(en("IE", None, vec![MEnumerator { c: MCommon::new("EA"), fields: Some(vec![MField::new("ef", i32t())]), value: None }, enumerator("EB")]));
    f.defs.push(iface("II", vec![], vec![op("iop", vec![MParam::new("ip", i32t())], MRet::Single { tag: None, stream: false, ty: i32t() })]));
    f.defs.push(custom("IC"));
    f.defs.push(alias("IA", i32t()));
    // the documented element
    let mut s = MStruct { c: MCommon::new("DS"), compact: false, fields: vec![MField::new("m", i32t()), MField::new("n", MType::prim("string")), MField::new("IS", i32t())] };
    let mut o = op("dop", vec![MParam::new("a", i32t()), MParam::new("b", i32t()), MParam::new("OS", i32t())], MRet::Tuple(vec![MParam::new("x", i32t()), MParam::new("y", i32t())]));
    let mut o1 = op("single", vec![MParam::new("a", i32t())], MRet::Single { tag: None, stream: false, ty: i32t() });
    let mut o0 = op("noret", vec![], MRet::None);
    let mut it = MInterface { c: MCommon::new("DI"), bases: vec![], ops: vec![] };
    let mut e = MEnum { c: MCommon::new("DE"), compact: false, unchecked: false, underlying: None, enumerators: vec![MEnumerator { c: MCommon::new("DA"), fields: Some(vec![MField::new("df", i32t())]), value: None }, enumerator("DB"), enumerator("IC")] };
    let mut cu = MCustom { c: MCommon::new("DC") };
    let mut al = MAlias { c: MCommon::new("DT"), ty: i32t() };
    for (pos, lines) in docs {
        let d = |c: MCommon| -> MCommon {
            let mut c = c;
            c.doc.lines = lines.to_vec();
            c
        };
        match pos {
            0 => s.c = d(s.c.clone()),
            1 => s.fields[0].c = d(s.fields[0].c.clone()),
            2 => it.c = d(it.c.clone()),
            3 => o.c = d(o.c.clone()),
            4 => e.c = d(e.c.clone()),
            5 => e.enumerators[0].c = d(e.enumerators[0].c.clone()),
            6 => e.enumerators[0].fields.as_mut().unwrap()[0].c = d(e.enumerators[0].fields.as_ref().unwrap()[0].c.clone()),
            7 => cu.c = d(cu.c.clone()),
            8 => al.c = d(al.c.clone()),
            9 => o1.c = d(o1.c.clone()),
            10 => o0.c = d(o0.c.clone()),
            _ => unreachable!(),
        }
    }
    if sibling_doc {
        // a healthy comment on a sibling: must stay intact whatever happens to the other one
        s.fields[1].c.doc.lines = vec![" Healthy {@link IS}.".into(), " Second.".into()];
        e.enumerators[1].c.doc.lines = vec![" Healthy.".into()];
        o1.c.doc.lines = if pos == 9 { o1.c.doc.lines } else { vec![" Healthy.".into(), " @param a: the a".into()] };
    }
    it.ops = vec![o, o1, o0];
    f.defs.push(MDef::Struct(s));
    f.defs.push(MDef::Interface(it));
    f.defs.push(MDef::Enum(e));
    f.defs.push(MDef::Custom(cu));
    f.defs.push(MDef::Alias(al));
    vec![f, outer, z]
}

#[derive(Default, Debug)]
struct LintExpect {
    malformed: usize,
    broken: usize,
    incorrect: usize,
}

fn expect_for(kind: &str, params: &[String], ret: Option<&MRet>, lines: &[String], owner: &str, table: &Table, e: &mut LintExpect) {
    if lines.is_empty() {
        return;
    }
    match doc::ref_parse(lines) {
        Err(()) => e.malformed += 1,
        Ok(d) => {
            let mut links: Vec<&String> = vec![];
            if let Some(o) = &d.overview {
                links.extend(o.links.iter());
            }
            for (_, m) in &d.params {
                links.extend(m.links.iter());
            }
            for (_, m) in &d.returns {
                links.extend(m.links.iter());
            }
            links.extend(d.see.iter());
            for l in links {
                if doc::expected_binding(table, l, owner).starts_with("broken:") {
                    e.broken += 1;
                }
            }
            match kind {
                "operation" => {
                    for (id, _) in &d.params {
                        if !params.contains(id) {
                            e.incorrect += 1;
                        }
                    }
                    match ret.unwrap() {
                        MRet::None => e.incorrect += d.returns.len(),
                        MRet::Single { .. } => e.incorrect += d.returns.iter().filter(|(id, _)| id.is_some()).count(),
                        MRet::Tuple(ps) => e.incorrect += d.returns.iter().filter(|(id, _)| id.as_ref().map_or(false, |i| !ps.iter().any(|p| &p.name.name == i))).count(),
                    }
                }
                "enumerator" => e.incorrect += d.returns.len(), // @param on an enumerator describes its fields
                _ => e.incorrect += d.params.len() + d.returns.len(),
            }
        }
    }
}

fn lint_expectations(program: &Program) -> LintExpect {
    let table = Table::build(program);
    let mut e = LintExpect::default();
    for f in program {
        let scope = f.module_name();
        for d in &f.defs {
            let dn = format!("{scope}::{}", d.common().name.name);
            match d {
                MDef::Struct(s) => {
                    expect_for("struct", &[], None, &s.c.doc.lines, &dn, &table, &mut e);
                    for fl in &s.fields {
                        expect_for("field", &[], None, &fl.c.doc.lines, &format!("{dn}::{}", fl.c.name.name), &table, &mut e);
                    }
                }
                MDef::Interface(i) => {
                    expect_for("interface", &[], None, &i.c.doc.lines, &dn, &table, &mut e);
                    for o in &i.ops {
                        let ps: Vec<String> = o.params.iter().map(|p| p.name.name.clone()).collect();
                        expect_for("operation", &ps, Some(&o.ret), &o.c.doc.lines, &format!("{dn}::{}", o.c.name.name), &table, &mut e);
                    }
                }
                MDef::Enum(en) => {
                    expect_for("enum", &[], None, &en.c.doc.lines, &dn, &table, &mut e);
                    for x in &en.enumerators {
                        let xn = format!("{dn}::{}", x.c.name.name);
                        expect_for("enumerator", &[], None, &x.c.doc.lines, &xn, &table, &mut e);
                        for fl in x.fields.iter().flatten() {
                            expect_for("field", &[], None, &fl.c.doc.lines, &format!("{xn}::{}", fl.c.name.name), &table, &mut e);
                        }
                    }
                }
                MDef::Custom(c) => expect_for("custom", &[], None, &c.c.doc.lines, &dn, &table, &mut e),
                MDef::Alias(a) => expect_for("alias", &[], None, &a.c.doc.lines, &dn, &table, &mut e),
            }
        }
    }
    e
}

/// Compile, compare the whole AST with the model, compare lints. Returns the outcome class.
pub fn check_doc_program(program: &Program, layout: &Layout, fam: &str, out: &mut CaseOut, skip_enumerator_param: bool) -> String {
    out.steps += 1;
    let rendered = render_program(program, layout);
    let texts: Vec<String> = rendered.iter().map(|r| r.text.clone()).collect();
    let input = || texts[0].clone();
    let expected: Vec<Node> = rendered.iter().map(|r| r.tree.clone()).collect();
    let exp = lint_expectations(program);
    match compile_rendered(rendered, None) {
        Err((loc, msg)) => {
            out.violate(format!("c16/{fam}/panic@{loc}"), format!("panic at {loc}: {msg}\n--- input ---\n{}", input()));
            "panic".into()
        }
        Ok(c) => {
            if let Some(e) = c.errors().first() {
                out.violate(format!("c16/{fam}/comment-caused-error/{}", e.code), format!("a doc comment must never cause an error, but: {} {}\n--- input ---\n{}", e.code, e.message, input()));
                return format!("error:{}", e.code);
            }
            for (i, e) in expected.iter().enumerate() {
                let Ok(o) = guarded(|| crate::model::observe::file(&c.files[i])) else {
                    out.violate(format!("c16/{fam}/observer-panic"), format!("walking the AST panicked\n--- input ---\n{}", input()));
                    continue;
                };
                if let Some(d) = diff(e, &o) {
                    // classify: text / tag / link / lost element
                    out.violate(format!("c16/{fam}/differs{}", d.path), format!("file {i}: at {}: {} expected {:?}, observed {:?}\n--- input ---\n{}", d.path_named, d.what, d.expected, d.observed, input()));
                }
            }
            let count = |code: &str| c.diags.iter().filter(|d| d.code == code).count();
            let (m, b, inc) = (count("MalformedDocComment"), count("BrokenDocLink"), count("IncorrectDocComment"));
            if (exp.malformed > 0) != (m > 0) {
                out.violate(format!("c16/{fam}/malformed-lint/{}", if m > 0 { "unexpected" } else { "missing" }), format!("expected {} malformed comment(s), {} MalformedDocComment warning(s) reported: {:?}\n--- input ---\n{}", exp.malformed, m, c.diags.iter().map(|d| &d.message).collect::<Vec<_>>(), input()));
            }
            if (exp.broken > 0) != (b > 0) {
                out.violate(format!("c16/{fam}/broken-link-lint/{}", if b > 0 { "unexpected" } else { "missing" }), format!("expected {} unresolvable link(s), {} BrokenDocLink warning(s) reported: {:?}\n--- input ---\n{}", exp.broken, b, c.diags.iter().map(|d| &d.message).collect::<Vec<_>>(), input()));
            }
            if !skip_enumerator_param && (exp.incorrect > 0) != (inc > 0) {
                out.violate(format!("c16/{fam}/incorrect-tag-lint/{}", if inc > 0 { "unexpected" } else { "missing" }), format!("expected {} ill-fitting tag(s), {} IncorrectDocComment warning(s) reported: {:?}\n--- input ---\n{}", exp.incorrect, inc, c.diags.iter().map(|d| &d.message).collect::<Vec<_>>(), input()));
            }
            for d in &c.diags {
                if d.level != "warning" {
                    out.violate(format!("c16/{fam}/lint-level/{}", d.level), format!("{} has level {}\n--- input ---\n{}", d.code, d.level, input()));
                }
            }
            format!("m{}b{}i{}", m.min(2), b.min(2), inc.min(2))
        }
    }
}

// ---------------------------------------------------------------------------------------------------------------

const INDENTS: [&str; 6] = ["", " ", "  ", "\t", "\u{3000}", "\u{a0}"];
const CONTENTS: [&str; 7] = [
    "text here",
    "{@link IS} tail",
    "mid {@link IS::f} tail",
    "end {@link OS}",
    // braces that do not start an inline tag, an '@' that does not start a tag
    "a set { a, b } of {@link IS} x}",
    "{0} then {{ and {link IS} a@b",
    "{ spaced {  @ not a tag",
];

fn line_alphabet() -> Vec<String> {
    let mut v = vec![String::new(), "  ".to_string(), "\u{3000}".to_string()];
    for i in INDENTS {
        for c in CONTENTS {
            v.push(format!("{i}{c}"));
        }
    }
    v
}

/// All overview line sequences.
pub struct Overviews {
    pub max_lines: usize,
    alphabet: Vec<String>,
}
impl Overviews {
    pub fn new(max_lines: usize) -> Self {
        Overviews { max_lines, alphabet: line_alphabet() }
    }
    fn lines(&self, idx: u64) -> Vec<String> {
        let a = self.alphabet.len() as u64;
        let mut i = idx;
        let mut n = 1;
        let mut size = a;
        while i >= size {
            i -= size;
            n += 1;
            size *= a;
        }
        let mut v = vec![];
        for _ in 0..n {
            v.push(self.alphabet[(i % a) as usize].clone());
            i /= a;
        }
        v
    }
}
impl Family for Overviews {
    fn name(&self) -> String {
        format!("overview-lines/all sequences of 1..{} lines over {} line forms (6 indentations x 7 contents incl. braces and at-signs that start no tag, blank, whitespace-only), position rotates", self.max_lines, self.alphabet.len())
    }
    fn len(&self) -> u64 {
        let a = self.alphabet.len() as u64;
        (1..=self.max_lines as u32).map(|n| a.pow(n)).sum()
    }
    fn describe(&self, idx: u64) -> Value {
        let p = place_doc((idx % 9) as usize, &self.lines(idx), idx % 2 == 0);
        let layout = rot_layout(idx);
        json!({"comment_lines": self.lines(idx), "position": idx % 9, "files": files_of(&p, &layout)})
    }
    fn run(&self, idx: u64) -> CaseOut {
        let lines = self.lines(idx);
        let pos = (idx % 9) as usize;
        let p = place_doc(pos, &lines, idx % 2 == 0);
        let layout = rot_layout(idx);
        let mut out = CaseOut::new(hash_str(&format!("{lines:?}{pos}{}", idx % 6)));
        out.steps = 0;
        out.validated = 1;
        out.nontrivial = lines.iter().any(|l| l.starts_with(char::is_whitespace) || l.contains('{'));
        out.class = check_doc_program(&p, &layout, "overview", &mut out, false);
        out
    }
}

/// Block tags.
pub struct Tags {
    forms: Vec<Vec<String>>,
}
impl Tags {
    pub fn new() -> Self {
        // a tag block = head line + 0..2 continuation lines
        let heads = ["@param a", "@param b", "@param zz", "@returns", "@returns x", "@returns zz", "@see IS", "@see Missing"];
        let inlines = ["", ":", ": inline text", ":   padded {@link IE::EA} text", ":{@link IC}"];
        let conts: Vec<Vec<&str>> = vec![vec![], vec!["   cont one"], vec!["     cont one", "   cont {@link OS} two"], vec!["", " after blank"]];
        let mut blocks: Vec<Vec<String>> = vec![];
        for h in heads {
            for il in inlines {
                for c in &conts {
                    if h.starts_with("@see") && (!il.is_empty() || !c.is_empty()) {
                        continue;
                    }
                    let mut b = vec![format!(" {h}{il}")];
                    b.extend(c.iter().map(|s| s.to_string()));
                    blocks.push(b);
                }
            }
        }
        // comments: optional overview line + 1..2 blocks (ordered pairs)
        let mut forms = vec![];
        for ov in [None, Some(" Overview {@link IS}.")] {
            for a in &blocks {
                let mut f: Vec<String> = ov.iter().map(|s| s.to_string()).collect();
                f.extend(a.iter().cloned());
                forms.push(f);
            }
        }
        let reduced: Vec<&Vec<String>> = blocks.iter().step_by(3).collect();
        for a in &reduced {
            for b in &reduced {
                let mut f = vec![" Overview.".to_string()];
                f.extend(a.iter().cloned());
                f.extend(b.iter().cloned());
                forms.push(f);
            }
        }
        // order within each kind of tag, and mixed orders of three tags
        let t = |v: &[&str]| -> Vec<String> { v.iter().map(|s| s.to_string()).collect() };
        forms.push(t(&[" @see IS", " @see IE"]));
        forms.push(t(&[" @see IE", " @see IS", " @see IC"]));
        forms.push(t(&[" @param b: the b", " @param a: the a"]));
        forms.push(t(&[" @param a: the a", " @param b: the b"]));
        forms.push(t(&[" @returns y: the y", " @returns x: the x"]));
        forms.push(t(&[" @returns x: the x", " @returns y: the y"]));
        let three = [" @param a: pa", " @returns x: rx", " @see IS"];
        for perm in [[0, 1, 2], [0, 2, 1], [1, 0, 2], [1, 2, 0], [2, 0, 1], [2, 1, 0]] {
            forms.push(perm.iter().map(|i| three[*i].to_string()).collect());
        }
        // a link that resolves nowhere BEFORE links that do - in one message, across the tags of one comment, across
        // lines (the links of all comments are patched from one queue, in order)
        forms.push(vec![" Overview {@link Missing} {@link IE} {@link AlsoMissing} {@link IS}.".to_string()]);
        forms.push(vec![" @param a: {@link Missing} then {@link IS}".to_string(), " @see IE".to_string()]);
        forms.push(vec![" @see Missing".to_string(), " @see IS".to_string(), " @see AlsoMissing".to_string(), " @see IE".to_string()]);
        forms.push(vec![" First {@link Missing}".to_string(), " second {@link IE::EA}".to_string(), " @returns x: {@link Nope} {@link IC}".to_string(), "   and {@link OS}".to_string()]);
        // tags whose identifier names something of the operation - but of the OTHER list (a return member in @param,
        // a parameter in @returns), the placeholder name of an unnamed return value, the operation itself
        for h in ["@param x", "@param y", "@returns a", "@returns OS", "@param returnValue", "@returns returnValue", "@param dop", "@returns single"] {
            forms.push(vec![format!(" {h}: text")]);
            forms.push(vec![" @param a: fits everywhere".to_string(), format!(" {h}: text")]);
            forms.push(vec![format!(" {h}"), " @param a: fits everywhere".to_string()]);
            forms.push(vec![" Overview.".to_string(), format!(" {h}: text"), "   continued".to_string()]);
        }
        Tags { forms }
    }
}
const TAG_POSITIONS: [usize; 11] = [0, 1, 2, 3, 4, 5, 6, 7, 8, 9, 10];
impl Family for Tags {
    fn name(&self) -> String {
        format!("block-tags/{} comment forms (1-2 tag blocks with inline / continuation messages, with and without overview) x 11 positions (incl. operations returning a tuple, a single value, nothing)", self.forms.len())
    }
    fn len(&self) -> u64 {
        (self.forms.len() * TAG_POSITIONS.len()) as u64
    }
    fn describe(&self, idx: u64) -> Value {
        let p = place_doc(TAG_POSITIONS[(idx % 11) as usize], &self.forms[(idx / 11) as usize], idx % 2 == 1);
        json!({"comment_lines": self.forms[(idx / 11) as usize], "position": idx % 11, "files": files_of(&p, &rot_layout(idx))})
    }
    fn run(&self, idx: u64) -> CaseOut {
        let lines = &self.forms[(idx / 11) as usize];
        let pos = TAG_POSITIONS[(idx % 11) as usize];
        let p = place_doc(pos, lines, idx % 2 == 1);
        let mut out = CaseOut::new(hash_str(&format!("tags{lines:?}{pos}")));
        out.steps = 0;
        out.validated = 1;
        out.nontrivial = true;
        // @param on an enumerator: the statement does not say whether that fits (enumerators have fields)
        let skip = pos == 5 && lines.iter().any(|l| l.trim_start().starts_with("@param"));
        out.class = check_doc_program(&p, &rot_layout(idx), "tags", &mut out, skip);
        out
    }
}


/// Layout of tag lines: indentation before '@' (ASCII and non-ASCII white space, mixed), white space between the
/// tag keyword, the identifier and the colon, after an overview or alone, continuation lines indented differently.
pub struct TagLayouts {
    forms: Vec<Vec<String>>,
}
const TAG_INDENTS: [&str; 8] = ["", " ", "   ", "\t", "\u{3000}", "\u{a0}", " \u{2003} ", "\u{2003}\t"];
const TAG_GAPS: [&str; 4] = [" ", "  ", "\t", "\u{3000}"];
impl TagLayouts {
    pub fn new() -> Self {
        let mut forms = vec![];
        for ind in TAG_INDENTS {
            for gap in TAG_GAPS {
                for pre_colon in ["", " ", "\u{a0}"] {
                    for ov in [false, true] {
                        let o: Vec<String> = if ov { vec![" Overview line.".into(), format!("{ind}more overview")] } else { vec![] };
                        let mk = |tags: Vec<String>| {
                            let mut f = o.clone();
                            f.extend(tags);
                            f
                        };
                        forms.push(mk(vec![format!("{ind}@param{gap}a{pre_colon}: the a"), format!("{ind}@returns{gap}x{pre_colon}: the x"), format!("{ind}@see{gap}IS")]));
                        forms.push(mk(vec![format!("{ind}@param{gap}a{pre_colon}:{gap}the a"), format!("{ind}  continued"), format!("{ind}@param{gap}b{pre_colon}: the b")]));
                        forms.push(mk(vec![format!("{ind}@returns{pre_colon}:{gap}value"), format!("{ind}@see{gap}IE::EA")]));
                        forms.push(mk(vec![format!("{ind}@see{gap}IS{pre_colon}")]));
                    }
                }
            }
        }
        TagLayouts { forms }
    }
}
impl Family for TagLayouts {
    fn name(&self) -> String {
        format!("tag-layouts/{} forms: 8 indentations before '@' (ASCII, non-ASCII, mixed) x 4 gaps after the keyword x 3 gaps before ':' x with/without overview x 4 tag groups; position rotates over the 3 operations and 2 other elements", self.forms.len())
    }
    fn len(&self) -> u64 {
        self.forms.len() as u64 * 2
    }
    fn describe(&self, idx: u64) -> Value {
        let p = place_doc(Self::pos(idx), &self.forms[(idx / 2) as usize], idx % 4 == 1);
        json!({"comment_lines": self.forms[(idx / 2) as usize], "position": Self::pos(idx), "files": files_of(&p, &rot_layout(idx))})
    }
    fn run(&self, idx: u64) -> CaseOut {
        let lines = &self.forms[(idx / 2) as usize];
        let pos = Self::pos(idx);
        let p = place_doc(pos, lines, idx % 4 == 1);
        let mut out = CaseOut::new(hash_str(&format!("taglayout{lines:?}{pos}")));
        out.steps = 0;
        out.validated = 1;
        out.nontrivial = true;
        out.class = check_doc_program(&p, &rot_layout(idx), "tag-layouts", &mut out, false);
        out
    }
}
impl TagLayouts {
    fn pos(idx: u64) -> usize {
        // even: the operation returning a tuple (all tags fit); odd: rotate over single / none / struct / field
        if idx % 2 == 0 {
            3
        } else {
            [9usize, 10, 0, 1][((idx / 2) % 4) as usize]
        }
    }
}

/// Link targets of every kind and scope distance from every position.
pub struct LinkTargets;
const TARGETS: [&str; 26] = [
    "IS", "IS::f", "IE", "IE::EA", "IE::EA::ef", "II", "II::iop", "II::iop::ip", "IC", "IA", "Inner::IS", "Outer::Inner::IS", "::Outer::Inner::IS", "OS", "Outer::OS", "::Outer::OS", "OS::of", "Outer", "Outer::Inner", "int32", "string",
    "Missing", "Z::ZS", "::Z::ZS", "ZS", "::IS",
];
/// targets that are relative to the documented element itself
const OWN: [&str; 6] = ["m", "a", "x", "df", "DA", "dop"];
impl Family for LinkTargets {
    fn name(&self) -> String {
        "link-targets/32 written targets (every entity kind, member paths, every scope distance, global, other file, parameter, primitive, module, missing, own members) x 11 positions x {inline link, @see, link in @param message}".into()
    }
    fn len(&self) -> u64 {
        (TARGETS.len() + OWN.len()) as u64 * 11 * 3
    }
    fn describe(&self, idx: u64) -> Value {
        let (t, pos, how) = Self::decode(idx);
        let lines: Vec<String> = match how {
            0 => vec![format!(" See {{@link {t}}} for more.")],
            1 => vec![" Overview.".into(), format!(" @see {t}")],
            _ => vec![format!(" @param a: uses {{@link {t}}}")],
        };
        let p = place_doc(pos, &lines, false);
        json!({"target": t, "position": pos, "how": how, "files": files_of(&p, &Layout::uniform(Sep::Space, Commas::None))})
    }
    fn run(&self, idx: u64) -> CaseOut {
        let (t, pos, how) = Self::decode(idx);
        let lines: Vec<String> = match how {
            0 => vec![format!(" See {{@link {t}}} for more.")],
            1 => vec![" Overview.".into(), format!(" @see {t}")],
            _ => vec![format!(" @param a: uses {{@link {t}}}")],
        };
        let p = place_doc(pos, &lines, false);
        let mut out = CaseOut::new(hash_str(&format!("lt{t}{pos}{how}")));
        out.steps = 0;
        out.validated = 1;
        out.nontrivial = true;
        let skip = pos == 5 && how == 2;
        out.class = check_doc_program(&p, &Layout::uniform(Sep::Space, Commas::None), "links", &mut out, skip);
        out
    }
}
impl LinkTargets {
    fn decode(idx: u64) -> (&'static str, usize, u64) {
        let how = idx % 3;
        let pos = ((idx / 3) % 11) as usize;
        let ti = (idx / 33) as usize;
        let t = if ti < TARGETS.len() { TARGETS[ti] } else { OWN[ti - TARGETS.len()] };
        (t, pos, how)
    }
}


/// Two documented elements that write the SAME link: each must be bound from its own element outwards.
pub struct LinkPairs;
impl LinkPairs {
    fn decode(idx: u64) -> (&'static str, usize, usize, u64) {
        let how = idx % 3;
        let pair = (idx / 3) % 110;
        let (p1, mut p2) = ((pair / 10) as usize, (pair % 10) as usize);
        if p2 >= p1 {
            p2 += 1;
        }
        let ti = (idx / 330) as usize;
        let t = if ti < TARGETS.len() { TARGETS[ti] } else { OWN[ti - TARGETS.len()] };
        (t, p1, p2, how)
    }
    fn lines(t: &str, how: u64) -> Vec<String> {
        match how {
            0 => vec![format!(" See {{@link {t}}} for more.")],
            1 => vec![" Overview.".into(), format!(" @see {t}")],
            _ => vec![format!(" @param a: uses {{@link {t}}}")],
        }
    }
}
impl Family for LinkPairs {
    fn name(&self) -> String {
        "link-pairs/the same written target (32 targets) in the comments of TWO elements: all 110 ordered pairs of the 11 positions x {inline link, @see, link in @param message}".into()
    }
    fn len(&self) -> u64 {
        (TARGETS.len() + OWN.len()) as u64 * 110 * 3
    }
    fn describe(&self, idx: u64) -> Value {
        let (t, p1, p2, how) = Self::decode(idx);
        let lines = Self::lines(t, how);
        let p = place_docs(&[(p1, &lines), (p2, &lines)], false);
        json!({"target": t, "positions": [p1, p2], "how": how, "files": files_of(&p, &Layout::uniform(Sep::Space, Commas::None))})
    }
    fn run(&self, idx: u64) -> CaseOut {
        let (t, p1, p2, how) = Self::decode(idx);
        let lines = Self::lines(t, how);
        let p = place_docs(&[(p1, &lines), (p2, &lines)], false);
        let mut out = CaseOut::new(hash_str(&format!("lp{t}{p1}{p2}{how}")));
        out.steps = 0;
        out.validated = 1;
        out.nontrivial = true;
        // (a @param tag on an enumerator is not judged: see LinkTargets)
        let skip = (p1 == 5 || p2 == 5) && how == 2;
        out.class = check_doc_program(&p, &Layout::uniform(Sep::Space, Commas::None), "link-pairs", &mut out, skip);
        out
    }
}

/// The malformed catalogue, alone and next to a healthy sibling comment.
pub struct Malformed;
const BAD: [&[&str]; 16] = [
    &[" @foo bar"],
    &[" @"],
    &[" text {@link IS"],
    &[" text {@param a}"],
    &[" @link IS"],
    &[" @param (a): x"],
    &[" @see IS trailing"],
    &[" @param : no identifier"],
    &[" @see"],
    &[" ok line", " {@link }"],
    &[" @returns a b: two identifiers"],
    &[" {@link IS::}"],
    &[" @see IS", " continuation after see"],
    &[" fine", " @param a: fine", " @unknown"],
    &[" {@see IS}"],
    &[" @param a: x {@link IS"],
];
impl Family for Malformed {
    fn name(&self) -> String {
        "malformed-catalogue/16 malformed forms x 11 positions x {alone, next to healthy sibling comments}".into()
    }
    fn len(&self) -> u64 {
        BAD.len() as u64 * 11 * 2
    }
    fn describe(&self, idx: u64) -> Value {
        let lines: Vec<String> = BAD[(idx / 22) as usize].iter().map(|s| s.to_string()).collect();
        let p = place_doc(((idx / 2) % 11) as usize, &lines, idx % 2 == 1);
        json!({"comment_lines": BAD[(idx / 22) as usize], "position": (idx / 2) % 11, "healthy_siblings": idx % 2 == 1, "files": files_of(&p, &rot_layout(idx / 2))})
    }
    fn run(&self, idx: u64) -> CaseOut {
        let lines: Vec<String> = BAD[(idx / 22) as usize].iter().map(|s| s.to_string()).collect();
        let pos = ((idx / 2) % 11) as usize;
        let p = place_doc(pos, &lines, idx % 2 == 1);
        let mut out = CaseOut::new(hash_str(&format!("bad{idx}")));
        out.steps = 0;
        out.validated = 1;
        out.nontrivial = true;
        out.class = check_doc_program(&p, &rot_layout(idx / 2), "malformed", &mut out, false);
        out
    }
}

pub fn families(tier: &str) -> Vec<Box<dyn Family>> {
    vec![Box::new(Malformed), Box::new(LinkTargets), Box::new(Tags::new()), Box::new(TagLayouts::new()), Box::new(Overviews::new(if tier == "quick" { 3 } else { 4 })), Box::new(LinkPairs)]
}
