//! C05 — illegal cycles are always diagnosed; acyclic definitions never are.
//! All containment graphs on <= 4 nodes (every struct/enum kind assignment, every wrapper routing), all alias
//! graphs on <= 4 aliases, all inheritance graphs on <= 4 interfaces; oracle = plain graph theory.

use super::PropMeta;
use crate::engine::*;
use crate::model::run::compile_texts;
use crate::util::*;
use serde_json::{json, Value};

pub fn meta(m: &mut PropMeta) {
    m.rule = "ALL directed containment graphs (self-loops allowed) on 1..3 nodes x every struct/enum kind assignment x each of 11 edge routings (direct, optional, sequence element, dictionary key, dictionary value, result success, result failure, tagged optional member, tagged optional sequence member, through an alias, through an alias of a sequence shared by all users of the target) applied uniformly, and per edge on 2 nodes; all 2^16 graphs on 4 nodes with kinds and routings assigned by a fixed rotation (thorough: x every uniform routing); nodes spread over one and two files; ALL alias graphs on 4 aliases (each alias targets another alias, a primitive, or Sequence<alias>: 9^4); ALL inheritance graphs on 4 interfaces (each lists any subset of the four, itself included, as bases: 2^16, incl. diamonds); plus ring / complete (on 9 of the nodes) / layered families with 10 nodes. Oracle (reachability / SCC): E032 is reported iff the containment graph has a cycle; every node on a cycle is named in a reported chain; every reported chain 'A -> B -> A' is a closed walk along real field edges and its notes name real fields; no E032 for acyclic graphs; alias graphs: rejected iff an alias reaches itself, otherwise no error; inheritance graphs: rejected iff an interface reaches itself, acyclic lattices accepted; always a verdict (no crash/hang). non-trivial = the graph has an edge; distinct = distinct rendered programs.";
    m.explanation = "complete enumeration of small graphs rendered as Slice programs; graph-theoretic oracle";
    m.quick_bound = "containment: all graphs <= 3 nodes x kinds x 11 routings, all 4-node graphs (rotating kinds/routings); aliases: 9^4; inheritance: 2^16";
    m.thorough_bound = "as quick, 4-node containment graphs x every uniform routing";
}

const ROUTINGS: usize = 11;
/// the routings of the per-edge product (direct, optional, sequence, dictionary value / key, result success, tagged
/// optional, alias of a sequence)
const PER_EDGE: [usize; 8] = [0, 1, 2, 4, 3, 5, 7, 10];
/// the member `f<j>` of a struct or enumerator that leads to type `t` by routing `r` (7, 8: TAGGED members)
fn member(r: usize, j: usize, t: &str) -> String {
    if r >= 7 {
        format!("tag({}) f{j}: {}", j + 1, route(r, t))
    } else {
        format!("f{j}: {}", route(r, t))
    }
}
fn route(r: usize, t: &str) -> String {
    match r {
        7 => format!("{t}?"),
        8 => format!("Sequence<{t}>?"),
        // through a type alias (declared once per target, see `alias_defs`): every user of a target shares ONE
        // anonymous type
        9 => format!("A{t}"),
        10 => format!("AS{t}"),
        0 => t.to_string(),
        1 => format!("{t}?"),
        2 => format!("Sequence<{t}>"),
        3 => format!("Dictionary<{t}, int32>"),
        4 => format!("Dictionary<int32, {t}>"),
        5 => format!("Result<{t}, int32>"),
        6 => format!("Result<int32, {t}?>"),
        _ => unreachable!(),
    }
}

/// reach[i][j] = j reachable from i by a non-empty path
fn reach(n: usize, adj: &[Vec<bool>]) -> Vec<Vec<bool>> {
    let mut r: Vec<Vec<bool>> = adj.to_vec();
    for k in 0..n {
        for i in 0..n {
            for j in 0..n {
                if r[i][k] && r[k][j] {
                    r[i][j] = true;
                }
            }
        }
    }
    r
}

struct GraphCase {
    n: usize,
    adj: Vec<Vec<bool>>,
    /// kind per node: false = struct, true = enum
    is_enum: Vec<bool>,
    /// routing per edge (i,j)
    routing: Vec<Vec<usize>>,
    two_files: bool,
}

impl GraphCase {
    fn name(i: usize) -> String {
        format!("N{i}")
    }
    fn render(&self) -> Vec<String> {
        let mut defs = vec![];
        for i in 0..self.n {
            let mut members = vec![];
            for j in 0..self.n {
                if self.adj[i][j] {
                    let m = member(self.routing[i][j], j, &Self::name(j));
                    if self.is_enum[i] {
                        members.push(format!("V{j}({m})"));
                    } else {
                        members.push(m);
                    }
                }
            }
            if self.is_enum[i] {
                if members.is_empty() {
                    members.push("Z".into());
                }
                defs.push(format!("enum {} {{ {} }}", Self::name(i), members.join(" ")));
            } else {
                defs.push(format!("struct {} {{ {} }}", Self::name(i), members.join(" ")));
            }
        }
        // aliases used by routings 9 and 10 (after the definitions; with two files: in the second one)
        for j in 0..self.n {
            let used = |r: usize| (0..self.n).any(|i| self.adj[i][j] && self.routing[i][j] == r);
            if used(9) {
                defs.push(format!("typealias A{} = {}", Self::name(j), Self::name(j)));
            }
            if used(10) {
                defs.push(format!("typealias AS{} = Sequence<{}>", Self::name(j), Self::name(j)));
            }
        }
        if self.two_files && self.n > 1 {
            let (a, b): (Vec<_>, Vec<_>) = defs.iter().enumerate().partition(|(i, _)| i % 2 == 0);
            vec![format!("module G\n{}\n", a.into_iter().map(|x| x.1.clone()).collect::<Vec<_>>().join("\n")), format!("module G\n{}\n", b.into_iter().map(|x| x.1.clone()).collect::<Vec<_>>().join("\n"))]
        } else {
            vec![format!("module G\n{}\n", defs.join("\n"))]
        }
    }

    fn check(&self, fam: &str) -> CaseOut {
        let texts = self.render();
        let mut out = CaseOut::new(hash_str(&texts.join("\u{0}")));
        out.validated = 1;
        out.nontrivial = self.adj.iter().any(|r| r.iter().any(|x| *x));
        let r = reach(self.n, &self.adj);
        let on_cycle: Vec<bool> = (0..self.n).map(|i| r[i][i]).collect();
        let cyclic = on_cycle.iter().any(|x| *x);
        let refs: Vec<&str> = texts.iter().map(|s| s.as_str()).collect();
        let input = || texts.join("\n--- next file ---\n");
        match compile_texts(&refs, None) {
            Err((loc, msg)) => {
                out.class = "panic".into();
                out.violate(format!("c05/{fam}/panic@{loc}"), format!("panic at {loc}: {msg}\n--- input ---\n{}", input()));
            }
            Ok((_, _, diags)) => {
                let e032: Vec<_> = diags.iter().filter(|d| d.code == "E032").collect();
                out.class = format!("cyclic={cyclic} sccnodes={} reports={}", on_cycle.iter().filter(|x| **x).count(), e032.len());
                if cyclic && e032.is_empty() {
                    out.violate(format!("c05/{fam}/cycle-not-diagnosed"), format!("the containment graph has a cycle (nodes on cycles: {:?}) but no infinite-size error was reported; diagnostics: {:?}\n--- input ---\n{}", on_cycle, diags.iter().map(|d| &d.code).collect::<Vec<_>>(), input()));
                }
                if !cyclic && !e032.is_empty() {
                    out.violate(format!("c05/{fam}/acyclic-diagnosed"), format!("the containment graph is acyclic but E032 was reported: {}\n--- input ---\n{}", e032[0].message, input()));
                }
                // chains
                let mut named = vec![false; self.n];
                for d in &e032 {
                    // message: "type G::N0 illegally references itself: G::N0 -> G::N1 -> G::N0"
                    let Some((_, chain)) = d.message.split_once(": ") else { continue };
                    let ids: Vec<usize> = chain.split("->").filter_map(|s| s.trim().rsplit("::").next().and_then(|x| x.strip_prefix('N')).and_then(|x| x.parse().ok())).collect();
                    // every element of the chain is a type of the program (nothing else - an enumerator, a field - may
                    // stand in for one), and the type the message is about is where the chain starts
                    if ids.len() != chain.split("->").count() || ids.len() < 2 {
                        out.violate(format!("c05/{fam}/reported-chain-is-not-a-path"), format!("reported chain {chain:?} has elements that are not types of the program\n--- input ---\n{}", input()));
                        continue;
                    }
                    if !d.message.starts_with(&format!("type G::N{} ", ids[0])) {
                        out.violate(format!("c05/{fam}/chain-does-not-start-at-the-reported-type"), format!("{:?}\n--- input ---\n{}", d.message, input()));
                    }
                    // the notes ARE the path of fields: one per link, in the order of the chain, each naming the container
                    // the link leaves (with its kind), the field it goes through and a type that mentions where it leads
                    if d.notes.len() != ids.len() - 1 {
                        out.violate(format!("c05/{fam}/notes-and-links-differ-in-number"), format!("chain {chain:?} has {} links but {} notes: {:?}\n--- input ---\n{}", ids.len() - 1, d.notes.len(), d.notes.iter().map(|n| &n.0).collect::<Vec<_>>(), input()));
                    } else if ids.iter().all(|i| *i < self.n) {
                        for (k, (nmsg, _)) in d.notes.iter().enumerate() {
                            let (from, to) = (ids[k], ids[k + 1]);
                            let want_head = format!("{} 'N{from}' contains a field named 'f{to}' that is of type '", if self.is_enum[from] { "enum" } else { "struct" });
                            let leads_there = nmsg.strip_prefix(&want_head).map_or(false, |t| t.contains(&format!("N{to}")));
                            if !leads_there {
                                out.violate(format!("c05/{fam}/note-does-not-describe-its-link"), format!("link {k} of {chain:?} goes from N{from} to N{to}: the note must read {want_head:?}... with a type that names N{to}, but is {nmsg:?}\n--- input ---\n{}", input()));
                                break;
                            }
                        }
                    }
                    if ids.len() >= 2 {
                        let mut ok = ids.first() == ids.last();
                        for w in ids.windows(2) {
                            if w[0] >= self.n || w[1] >= self.n || !self.adj[w[0]][w[1]] {
                                ok = false;
                            }
                        }
                        if !ok {
                            out.violate(format!("c05/{fam}/reported-chain-is-not-a-path"), format!("reported chain {chain:?} is not a closed walk along real field edges\n--- input ---\n{}", input()));
                        }
                        for i in &ids {
                            if *i < self.n {
                                named[*i] = true;
                            }
                        }
                        // notes name real fields: "... contains a field named 'fJ' ..."
                        for (nmsg, _) in &d.notes {
                            if let Some(rest) = nmsg.split("field named '").nth(1) {
                                let fname = rest.split('\'').next().unwrap_or("");
                                let real = fname.strip_prefix('f').and_then(|x| x.parse::<usize>().ok()).map_or(false, |j| j < self.n && (0..self.n).any(|i| self.adj[i][j]));
                                if !real {
                                    out.violate(format!("c05/{fam}/note-names-unknown-field"), format!("note {nmsg:?} names a field that is not part of the program\n--- input ---\n{}", input()));
                                }
                            }
                        }
                    }
                }
                if cyclic && !e032.is_empty() {
                    for i in 0..self.n {
                        if on_cycle[i] && !named[i] {
                            out.violate(format!("c05/{fam}/node-on-cycle-not-named"), format!("type N{i} lies on a cycle but no reported chain names it; reports: {:?}\n--- input ---\n{}", e032.iter().map(|d| &d.message).collect::<Vec<_>>(), input()));
                            break;
                        }
                    }
                }
            }
        }
        out
    }
}

/// All graphs on n nodes x kinds x uniform routings (x one/two files).
pub struct SmallGraphs {
    pub n: usize,
}
impl SmallGraphs {
    fn decode(&self, idx: u64) -> GraphCase {
        let n = self.n;
        let edges = (n * n) as u32;
        let g = idx % (1u64 << edges);
        let rest = idx >> edges;
        let kinds = rest % (1 << n);
        let rest = rest >> n;
        let routing = (rest % ROUTINGS as u64) as usize;
        let two_files = (rest / ROUTINGS as u64) % 2 == 1;
        let mut adj = vec![vec![false; n]; n];
        for i in 0..n {
            for j in 0..n {
                adj[i][j] = (g >> (i * n + j)) & 1 == 1;
            }
        }
        GraphCase { n, adj, is_enum: (0..n).map(|i| (kinds >> i) & 1 == 1).collect(), routing: vec![vec![routing; n]; n], two_files }
    }
}
impl Family for SmallGraphs {
    fn name(&self) -> String {
        format!("containment/all graphs on {} nodes x kinds x 11 uniform routings (direct, optional, sequence, dictionary key / value, result success / failure, tagged optional, tagged optional sequence, alias, alias of a sequence) x 1-2 files", self.n)
    }
    fn len(&self) -> u64 {
        (1u64 << (self.n * self.n)) * (1 << self.n) * ROUTINGS as u64 * if self.n > 1 { 2 } else { 1 }
    }
    fn describe(&self, idx: u64) -> Value {
        json!({"files": self.decode(idx).render()})
    }
    fn run(&self, idx: u64) -> CaseOut {
        self.decode(idx).check("containment")
    }
}

/// 2 nodes, every per-edge routing assignment.
pub struct PerEdgeRouting;
impl PerEdgeRouting {
    fn decode(&self, idx: u64) -> GraphCase {
        let g = idx % 16;
        let mut rest = idx / 16;
        let kinds = rest % 4;
        rest /= 4;
        let mut adj = vec![vec![false; 2]; 2];
        let mut routing = vec![vec![0usize; 2]; 2];
        for i in 0..2 {
            for j in 0..2 {
                adj[i][j] = (g >> (i * 2 + j)) & 1 == 1;
                routing[i][j] = PER_EDGE[(rest % PER_EDGE.len() as u64) as usize];
                rest /= PER_EDGE.len() as u64;
            }
        }
        GraphCase { n: 2, adj, is_enum: vec![kinds & 1 == 1, kinds & 2 == 2], routing, two_files: false }
    }
}
impl Family for PerEdgeRouting {
    fn name(&self) -> String {
        "containment/all graphs on 2 nodes x kinds x every per-edge assignment of 8 routings (direct, optional, sequence, dictionary value / key, result success, tagged optional, alias of a sequence)".into()
    }
    fn len(&self) -> u64 {
        16 * 4 * (PER_EDGE.len() as u64).pow(4)
    }
    fn describe(&self, idx: u64) -> Value {
        json!({"files": self.decode(idx).render()})
    }
    fn run(&self, idx: u64) -> CaseOut {
        self.decode(idx).check("containment")
    }
}

/// All 2^16 graphs on 4 nodes; kinds and routings by rotation (or x every uniform routing).
pub struct FourNodes {
    pub all_routings: bool,
}
impl FourNodes {
    fn decode(&self, idx: u64) -> GraphCase {
        let g = idx % 65536;
        let rot = idx / 65536;
        let mut adj = vec![vec![false; 4]; 4];
        let mut routing = vec![vec![0usize; 4]; 4];
        for i in 0..4 {
            for j in 0..4 {
                adj[i][j] = (g >> (i * 4 + j)) & 1 == 1;
                routing[i][j] = if self.all_routings { rot as usize } else { ((g as usize) + i * 3 + j) % ROUTINGS };
            }
        }
        GraphCase { n: 4, adj, is_enum: (0..4).map(|i| ((g >> (i + 3)) ^ (g >> (2 * i))) & 1 == 1).collect(), routing, two_files: g % 3 == 0 }
    }
}
impl Family for FourNodes {
    fn name(&self) -> String {
        format!("containment/all 65536 graphs on 4 nodes, {}", if self.all_routings { "x every uniform routing" } else { "kinds and per-edge routings by fixed rotation" })
    }
    fn len(&self) -> u64 {
        65536 * if self.all_routings { ROUTINGS as u64 } else { 1 }
    }
    fn describe(&self, idx: u64) -> Value {
        json!({"files": self.decode(idx).render()})
    }
    fn run(&self, idx: u64) -> CaseOut {
        self.decode(idx).check("containment4")
    }
}

/// 10-node deterministic families: ring, complete, layered (acyclic and with one back edge).
pub struct TenNodes;
impl TenNodes {
    fn decode(&self, idx: u64) -> GraphCase {
        let n = 10;
        let mut adj = vec![vec![false; n]; n];
        match idx / ROUTINGS as u64 {
            0 => {
                for i in 0..n {
                    adj[i][(i + 1) % n] = true;
                }
            }
            1 => {
                // complete on 9 of the nodes, the tenth hangs off it. (The cycle detector walks every simple path:
                // 1.3 s for 9 nodes that all contain each other, 14 s for 10, minutes for 11 - that cost is C01's
                // business and a known finding there; here only what is reported counts.)
                for i in 0..n - 1 {
                    for j in 0..n - 1 {
                        adj[i][j] = i != j;
                    }
                }
                adj[8][9] = true;
            }
            2 => {
                // layered, acyclic: 5 layers of 2
                for l in 0..4 {
                    for a in 0..2 {
                        for b in 0..2 {
                            adj[l * 2 + a][(l + 1) * 2 + b] = true;
                        }
                    }
                }
            }
            3 => {
                for l in 0..4 {
                    for a in 0..2 {
                        for b in 0..2 {
                            adj[l * 2 + a][(l + 1) * 2 + b] = true;
                        }
                    }
                }
                adj[9][0] = true;
            }
            4 => {
                // acyclic chain
                for i in 0..n - 1 {
                    adj[i][i + 1] = true;
                }
            }
            _ => {
                // two disjoint rings and a tail
                for i in 0..3 {
                    adj[i][(i + 1) % 3] = true;
                }
                for i in 3..7 {
                    adj[i][3 + (i - 3 + 1) % 4] = true;
                }
                adj[7][8] = true;
                adj[8][9] = true;
                adj[9][0] = true;
            }
        }
        let r = (idx % ROUTINGS as u64) as usize;
        GraphCase { n, adj, is_enum: (0..n).map(|i| i % 3 == 1).collect(), routing: vec![vec![r; n]; n], two_files: idx % 2 == 0 }
    }
}
impl Family for TenNodes {
    fn name(&self) -> String {
        "containment/10-node ring, complete graph on 9 nodes with a tail, layered DAG, layered with back edge, chain, two rings x 11 routings".into()
    }
    fn len(&self) -> u64 {
        6 * ROUTINGS as u64
    }
    fn hang_secs(&self) -> f64 {
        60.0
    }
    fn describe(&self, idx: u64) -> Value {
        json!({"files": self.decode(idx).render()})
    }
    fn run(&self, idx: u64) -> CaseOut {
        self.decode(idx).check("containment10")
    }
}

/// All alias graphs on 4 aliases.
pub struct AliasGraphs;
impl AliasGraphs {
    fn decode(&self, idx: u64) -> (Vec<String>, Vec<Option<usize>>) {
        let mut defs = vec![];
        let mut target = vec![];
        let mut x = idx % 6561;
        for i in 0..4 {
            let c = (x % 9) as usize;
            x /= 9;
            let (t, tg) = match c {
                0..=3 => (format!("A{c}"), Some(c)),
                4 => ("int32".to_string(), None),
                _ => (format!("Sequence<A{}>", c - 5), Some(c - 5)),
            };
            defs.push(format!("typealias A{i} = {t}"));
            target.push(tg);
        }
        (defs, target)
    }
}
impl Family for AliasGraphs {
    fn name(&self) -> String {
        "aliases/all 9^4 alias graphs on 4 aliases (alias, primitive or Sequence<alias> targets), with and without a user".into()
    }
    fn len(&self) -> u64 {
        6561 * 2
    }
    fn describe(&self, idx: u64) -> Value {
        let (d, _) = self.decode(idx);
        json!({"file": format!("module G\n{}\n{}", d.join("\n"), if idx >= 6561 { "struct U { a: A0 b: Sequence<A3?> }" } else { "" })})
    }
    fn run(&self, idx: u64) -> CaseOut {
        let (defs, target) = self.decode(idx);
        let with_user = idx >= 6561;
        let text = format!("module G\n{}\n{}\n", defs.join("\n"), if with_user { "struct U { a: A0 b: Sequence<A3?> }" } else { "" });
        let mut out = CaseOut::new(hash_str(&text));
        out.validated = 1;
        out.nontrivial = target.iter().any(|t| t.is_some());
        // an alias reaches itself?
        let mut cyc = vec![false; 4];
        for i in 0..4 {
            let mut cur = target[i];
            let mut steps = 0;
            while let Some(c) = cur {
                if c == i {
                    cyc[i] = true;
                    break;
                }
                steps += 1;
                if steps > 8 {
                    break;
                }
                cur = target[c];
            }
        }
        let cyclic = cyc.iter().any(|x| *x);
        match compile_texts(&[&text], None) {
            Err((loc, msg)) => {
                out.class = "panic".into();
                out.violate(format!("c05/aliases/panic@{loc}"), format!("panic at {loc}: {msg}\n--- input ---\n{text}"));
            }
            Ok((_, _, diags)) => {
                let errors: Vec<_> = diags.iter().filter(|d| d.level == "error").collect();
                out.class = format!("cyclic={cyclic} errors={}", errors.len().min(5));
                if cyclic && errors.is_empty() {
                    out.violate("c05/aliases/alias-loop-not-rejected", format!("alias(es) {:?} reach themselves but the program was accepted\n--- input ---\n{text}", cyc));
                }
                if !cyclic && !errors.is_empty() {
                    out.violate(format!("c05/aliases/acyclic-aliases-rejected/{}", errors[0].code), format!("no alias reaches itself but: {} {}\n--- input ---\n{text}", errors[0].code, errors[0].message));
                }
                if diags.iter().any(|d| d.code == "E032") {
                    out.violate("c05/aliases/infinite-size-error-without-containment", format!("E032 reported for a program without any struct/enum containment cycle\n--- input ---\n{text}"));
                }
            }
        }
        out
    }
}

/// Alias graphs with branching: 3 aliases whose targets are a primitive, an alias, Sequence<alias>, or a two-armed
/// wrapper Result<alias, alias> / Dictionary<int32, Result<alias, alias>> (all 9 + 9 arm assignments), so that the
/// same alias is reached along two branches of one expansion (a diamond is acyclic) as well as along real loops.
pub struct AliasDiamonds;
const AD_TARGETS: u64 = 1 + 3 + 3 + 9 + 9 + 9;
impl AliasDiamonds {
    /// (type text, aliases it mentions)
    fn target(c: u64) -> (String, Vec<usize>) {
        match c {
            0 => ("string".into(), vec![]),
            1..=3 => (format!("A{}", c - 1), vec![(c - 1) as usize]),
            4..=6 => (format!("Sequence<A{}>", c - 4), vec![(c - 4) as usize]),
            7..=15 => {
                let (a, b) = (((c - 7) / 3) as usize, ((c - 7) % 3) as usize);
                (format!("Result<A{a}, A{b}>"), vec![a, b])
            }
            16..=24 => {
                let (a, b) = (((c - 16) / 3) as usize, ((c - 16) % 3) as usize);
                (format!("Dictionary<int32, Result<A{a}, Sequence<A{b}>>>"), vec![a, b])
            }
            _ => {
                // an alias in KEY position (whether it is a legal key type is another rule: see `run`)
                let (a, b) = (((c - 25) / 3) as usize, ((c - 25) % 3) as usize);
                (format!("Dictionary<A{a}, A{b}>"), vec![a, b])
            }
        }
    }
    fn decode(idx: u64) -> (String, Vec<Vec<usize>>) {
        let mut x = idx % AD_TARGETS.pow(3);
        let mut text = String::from("module G\n");
        let mut adj = vec![];
        for i in 0..3 {
            let (t, m) = Self::target(x % AD_TARGETS);
            x /= AD_TARGETS;
            text.push_str(&format!("typealias A{i} = {t}\n"));
            adj.push(m);
        }
        if idx >= AD_TARGETS.pow(3) {
            text.push_str("struct U { a: A0 b: A2? }\n");
        }
        (text, adj)
    }
}
impl Family for AliasDiamonds {
    fn name(&self) -> String {
        format!("aliases/all {}^3 alias graphs on 3 aliases with two-armed wrappers (diamonds and loops through Result / Dictionary value and key), with and without a user", AD_TARGETS)
    }
    fn len(&self) -> u64 {
        AD_TARGETS.pow(3) * 2
    }
    fn describe(&self, idx: u64) -> Value {
        json!({"file": Self::decode(idx).0})
    }
    fn run(&self, idx: u64) -> CaseOut {
        let (text, mentions) = Self::decode(idx);
        let mut out = CaseOut::new(hash_str(&text));
        out.validated = 1;
        out.nontrivial = mentions.iter().any(|m| !m.is_empty());
        let mut adj = vec![vec![false; 3]; 3];
        for (i, m) in mentions.iter().enumerate() {
            for j in m {
                adj[i][*j] = true;
            }
        }
        let r = reach(3, &adj);
        let cyclic = (0..3).any(|i| r[i][i]);
        match compile_texts(&[&text], None) {
            Err((loc, msg)) => {
                out.class = "panic".into();
                out.violate(format!("c05/alias-diamonds/panic@{loc}"), format!("panic at {loc}: {msg}\n--- input ---\n{text}"));
            }
            Ok((_, _, diags)) => {
                let errors: Vec<_> = diags.iter().filter(|d| d.level == "error").collect();
                out.class = format!("cyclic={cyclic} errors={}", errors.len().min(5));
                if cyclic && errors.is_empty() {
                    out.violate("c05/alias-diamonds/alias-loop-not-rejected", format!("an alias reaches itself but the program was accepted\n--- input ---\n{text}"));
                }
                // an alias used as a dictionary key may break the key-type rule (E003..E006): that is C04's business
                let key_rule = |c: &str| matches!(c, "E003" | "E004" | "E005" | "E006");
                if !cyclic {
                    if let Some(e) = errors.iter().find(|e| !(text.contains("Dictionary<A") && key_rule(&e.code))) {
                        out.violate(format!("c05/alias-diamonds/acyclic-aliases-rejected/{}", e.code), format!("no alias reaches itself but: {} {}\n--- input ---\n{text}", e.code, e.message));
                    }
                }
            }
        }
        out
    }
}

/// All inheritance graphs on 4 interfaces.
pub struct InheritanceGraphs;
impl Family for InheritanceGraphs {
    fn name(&self) -> String {
        "inheritance/all 2^16 base-list assignments over 4 interfaces (incl. self, diamonds), with an operation each and with empty bodies; in one module, and as M1::P M1::Q M2::P M2::Q (like-named interfaces of two modules and files)".into()
    }
    fn len(&self) -> u64 {
        4 * 65536
    }
    fn describe(&self, idx: u64) -> Value {
        json!({"files": self.texts(idx)})
    }
    fn run(&self, idx: u64) -> CaseOut {
        let texts = self.texts(idx);
        let text = texts.join("--- next file ---\n");
        let mut out = CaseOut::new(hash_str(&text));
        out.validated = 1;
        let idx = idx % 65536;
        out.nontrivial = idx != 0;
        let mut adj = vec![vec![false; 4]; 4];
        for i in 0..4 {
            for j in 0..4 {
                adj[i][j] = (idx >> (i * 4 + j)) & 1 == 1;
            }
        }
        let r = reach(4, &adj);
        let cyclic = (0..4).any(|i| r[i][i]);
        let refs: Vec<&str> = texts.iter().map(|s| s.as_str()).collect();
        match compile_texts(&refs, None) {
            Err((loc, msg)) => {
                out.class = "panic".into();
                out.violate(format!("c05/inheritance/panic@{loc}"), format!("panic at {loc}: {msg}\n--- input ---\n{text}"));
            }
            Ok((_, _, diags)) => {
                let errors: Vec<_> = diags.iter().filter(|d| d.level == "error").collect();
                out.class = format!("cyclic={cyclic} errors={}", errors.len().min(5));
                if cyclic && errors.is_empty() {
                    out.violate("c05/inheritance/inheritance-loop-not-rejected", format!("an interface inherits from itself but the program was accepted\n--- input ---\n{text}"));
                }
                if !cyclic && !errors.is_empty() {
                    out.violate(format!("c05/inheritance/acyclic-lattice-rejected/{}", errors[0].code), format!("acyclic inheritance lattice rejected: {} {}\n--- input ---\n{text}", errors[0].code, errors[0].message));
                }
                if diags.iter().any(|d| d.code == "E032") {
                    out.violate("c05/inheritance/infinite-size-error-without-containment", format!("E032 reported for a program without any struct/enum\n--- input ---\n{text}"));
                }
                // "every reported chain is a real path": the chain of an inheritance loop starts and ends at the interface
                // the error is about, and every link is a base that interface lists
                let two_modules = texts.len() == 2;
                let index_of = |name: &str| -> Option<usize> {
                    let name = name.trim();
                    if two_modules {
                        ["M1::P", "M1::Q", "M2::P", "M2::Q"].iter().position(|n| *n == name)
                    } else {
                        name.strip_prefix("G::I").and_then(|x| x.parse::<usize>().ok()).filter(|i| *i < 4)
                    }
                };
                let mut named = [false; 4];
                for d in diags.iter().filter(|d| d.code == "E037") {
                    let Some((head, chain)) = d.message.split_once(": ") else { continue };
                    let ids: Vec<Option<usize>> = chain.split("->").map(|x| index_of(x)).collect();
                    let about = head.split('\'').nth(1).and_then(|n| index_of(n));
                    let real = ids.len() >= 2 && ids.iter().all(|i| i.is_some()) && ids.first() == ids.last() && ids[0] == about && ids.windows(2).all(|w| adj[w[0].unwrap()][w[1].unwrap()]);
                    if !real {
                        out.violate("c05/inheritance/reported-chain-is-not-a-path", format!("{:?}: the chain must start and end at the interface the error is about and follow the base lists\n--- input ---\n{text}", d.message));
                        break;
                    }
                    named[about.unwrap()] = true;
                }
                if cyclic && diags.iter().any(|d| d.code == "E037") {
                    if let Some(i) = (0..4).find(|i| r[*i][*i] && !named[*i]) {
                        out.violate("c05/inheritance/interface-on-a-loop-not-reported", format!("interface #{i} inherits from itself but no inheritance-loop error is about it\n--- input ---\n{text}"));
                    }
                }
            }
        }
        out
    }
}

/// Containment cycles and inheritance loops in ONE compilation (one file, two files in both orders): each kind is
/// reported as if the other were not there.
pub struct BothKindsOfCycle;
impl Family for BothKindsOfCycle {
    fn name(&self) -> String {
        "both-kinds/a containment cycle (direct, through an optional sequence, through an enum) next to an inheritance loop (self, ring of two) x one file / two files in both orders / the same with an alias loop as a third party".into()
    }
    fn len(&self) -> u64 {
        3 * 2 * 4
    }
    fn describe(&self, idx: u64) -> Value {
        json!({"files": Self::texts(idx)})
    }
    fn run(&self, idx: u64) -> CaseOut {
        let texts = Self::texts(idx);
        let mut out = CaseOut::new(hash_str(&texts.join("\u{1}")));
        out.validated = 1;
        out.nontrivial = true;
        let refs: Vec<&str> = texts.iter().map(|s| s.as_str()).collect();
        let input = || texts.join("\n--- next file ---\n");
        match compile_texts(&refs, None) {
            Err((loc, msg)) => out.violate(format!("c05/both-kinds/panic@{loc}"), format!("{msg}\n--- input ---\n{}", input())),
            Ok((_, _, diags)) => {
                let has = |c: &str| diags.iter().any(|d| d.code == c);
                // (an alias loop ends the compilation in the patching phase: then neither of the other two is judged)
                let alias_loop = texts.iter().any(|t| t.contains("typealias LA"));
                if !alias_loop {
                    if !has("E032") {
                        out.violate("c05/both-kinds/containment-cycle-not-diagnosed-next-to-an-inheritance-loop", format!("codes {:?}\n--- input ---\n{}", diags.iter().map(|d| &d.code).collect::<Vec<_>>(), input()));
                    }
                    if !has("E037") {
                        out.violate("c05/both-kinds/inheritance-loop-not-diagnosed-next-to-a-containment-cycle", format!("codes {:?}\n--- input ---\n{}", diags.iter().map(|d| &d.code).collect::<Vec<_>>(), input()));
                    }
                } else if !has("E019") {
                    out.violate("c05/both-kinds/alias-loop-not-diagnosed", format!("codes {:?}\n--- input ---\n{}", diags.iter().map(|d| &d.code).collect::<Vec<_>>(), input()));
                }
                out.class = format!("{:?}", { let mut c: Vec<&str> = diags.iter().filter(|d| d.level == "error").map(|d| d.code.as_str()).collect(); c.sort(); c.dedup(); c });
            }
        }
        out
    }
}
impl BothKindsOfCycle {
    fn texts(idx: u64) -> Vec<String> {
        let containment = ["struct Node { next: Node }\n", "struct Tree { kids: Sequence<Tree>? }\nstruct Leaf { t: Tree }\n", "enum Shape { Leaf, Group(inner: Holder) }\nstruct Holder { s: Shape }\n"][(idx % 3) as usize];
        let inheritance = ["interface Selfish : Selfish {}\n", "interface Ping : Pong { a() }\ninterface Pong : Ping { b() }\n"][((idx / 3) % 2) as usize];
        match idx / 6 {
            0 => vec![format!("module G\n{containment}{inheritance}")],
            1 => vec![format!("module G\n{containment}"), format!("module H\n{inheritance}")],
            2 => vec![format!("module H\n{inheritance}"), format!("module G\n{containment}")],
            _ => vec![format!("module G\n{containment}"), format!("module H\n{inheritance}"), "module K\ntypealias LA = LB\ntypealias LB = LA\n".to_string()],
        }
    }
}
impl InheritanceGraphs {
    fn texts(&self, idx: u64) -> Vec<String> {
        // second and fourth quarter of the family: empty bodies (nothing but the inheritance loop can make it an error);
        // third and fourth quarter: like-named interfaces of two modules
        let with_ops = (idx / 65536) % 2 == 0;
        let two_modules = idx / 65536 >= 2;
        let idx = idx % 65536;
        let scoped = |j: usize| format!("M{}::{}", j / 2 + 1, ["P", "Q"][j % 2]);
        let mut files = if two_modules { vec![String::from("module M1\n"), String::from("module M2\n")] } else { vec![String::from("module G\n")] };
        for i in 0..4 {
            let bases: Vec<String> = (0..4)
                .filter(|j| (idx >> (i * 4 + j)) & 1 == 1)
                .map(|j| if !two_modules { format!("I{j}") } else if i / 2 == j / 2 { ["P", "Q"][j % 2].to_string() } else { scoped(j) })
                .collect();
            // distinct operation names: an inherited operation may not be redeclared
            let body = if with_ops { format!("op{i}()") } else { String::new() };
            let name = if two_modules { ["P", "Q"][i % 2].to_string() } else { format!("I{i}") };
            files[if two_modules { i / 2 } else { 0 }].push_str(&format!("interface {name}{}{} {{ {body} }}\n", if bases.is_empty() { "" } else { " : " }, bases.join(", ")));
        }
        files
    }
}


/// All 2^16 containment graphs on the four types M1::P, M1::Q, M2::P, M2::Q (two modules, the same two names in
/// each; references inside a module are written bare, across modules qualified), kinds and routings by rotation.
pub struct TwoModules {
    /// number of routing modes: mode 0 = per-edge rotation, mode k = every edge through TWO_MODULE_UNIFORM[k - 1]
    pub modes: u64,
}
/// (uniform routings: like-named types of the two modules then appear in wrappers that print alike)
const TWO_MODULE_UNIFORM: [usize; 7] = [2, 4, 5, 6, 3, 1, 0];
impl TwoModules {
    fn scoped(i: usize) -> String {
        format!("M{}::{}", i / 2 + 1, ["P", "Q"][i % 2])
    }
    fn render(idx: u64) -> Vec<String> {
        let (g, mode) = (idx % 65536, (idx / 65536) as usize);
        let mut files = vec![String::from("module M1\n"), String::from("module M2\n")];
        for i in 0..4 {
            let is_enum = ((g >> (i + 5)) ^ (g >> (3 * i))) & 1 == 1;
            let mut members = vec![];
            for j in 0..4 {
                if (g >> (i * 4 + j)) & 1 == 1 {
                    let name = if i / 2 == j / 2 { ["P", "Q"][j % 2].to_string() } else { Self::scoped(j) };
                    let m = member(if mode == 0 { ((g as usize) + i * 3 + j) % 9 } else { TWO_MODULE_UNIFORM[mode - 1] }, j, &name);
                    members.push(if is_enum { format!("V{j}({m})") } else { m });
                }
            }
            let id = ["P", "Q"][i % 2];
            let def = if is_enum {
                if members.is_empty() {
                    members.push("Z".into());
                }
                format!("enum {id} {{ {} }}\n", members.join(" "))
            } else {
                format!("struct {id} {{ {} }}\n", members.join(" "))
            };
            files[i / 2].push_str(&def);
        }
        files
    }
}
impl Family for TwoModules {
    fn name(&self) -> String {
        format!("containment/all 65536 graphs on M1::P, M1::Q, M2::P, M2::Q (same names in two modules), kinds by fixed rotation x {} routing modes (per-edge rotation; every edge through the same wrapper: Sequence, Dictionary value, Result success, Result failure, ...)", self.modes)
    }
    fn len(&self) -> u64 {
        65536 * self.modes
    }
    fn describe(&self, idx: u64) -> Value {
        json!({"files": Self::render(idx)})
    }
    fn run(&self, idx: u64) -> CaseOut {
        let texts = Self::render(idx);
        let mut out = CaseOut::new(hash_str(&texts.join("\u{0}")));
        out.validated = 1;
        out.nontrivial = idx != 0;
        let mut adj = vec![vec![false; 4]; 4];
        for i in 0..4 {
            for j in 0..4 {
                adj[i][j] = ((idx % 65536) >> (i * 4 + j)) & 1 == 1;
            }
        }
        let r = reach(4, &adj);
        let on_cycle: Vec<bool> = (0..4).map(|i| r[i][i]).collect();
        let cyclic = on_cycle.iter().any(|x| *x);
        let refs: Vec<&str> = texts.iter().map(|s| s.as_str()).collect();
        let input = || texts.join("--- next file ---\n");
        let fam = "containment-two-modules";
        match compile_texts(&refs, None) {
            Err((loc, msg)) => {
                out.class = "panic".into();
                out.violate(format!("c05/{fam}/panic@{loc}"), format!("panic at {loc}: {msg}\n--- input ---\n{}", input()));
            }
            Ok((_, _, diags)) => {
                let e032: Vec<_> = diags.iter().filter(|d| d.code == "E032").collect();
                out.class = format!("cyclic={cyclic} sccnodes={} reports={}", on_cycle.iter().filter(|x| **x).count(), e032.len());
                if cyclic && e032.is_empty() {
                    out.violate(format!("c05/{fam}/cycle-not-diagnosed"), format!("the containment graph has a cycle (on cycles: {:?}) but no infinite-size error was reported; diagnostics: {:?}\n--- input ---\n{}", (0..4).filter(|i| on_cycle[*i]).map(Self::scoped).collect::<Vec<_>>(), diags.iter().map(|d| &d.code).collect::<Vec<_>>(), input()));
                }
                if !cyclic && !e032.is_empty() {
                    out.violate(format!("c05/{fam}/acyclic-diagnosed"), format!("the containment graph is acyclic but E032 was reported: {}\n--- input ---\n{}", e032[0].message, input()));
                }
                let mut named = vec![false; 4];
                for d in &e032 {
                    let Some((_, chain)) = d.message.split_once(": ") else { continue };
                    // identifiers of the chain that are scoped names of the four types
                    let ids: Vec<usize> = chain.split("->").filter_map(|s| (0..4).find(|i| s.trim() == Self::scoped(*i))).collect();
                    if ids.len() >= 2 && ids.len() == chain.split("->").count() {
                        let mut ok = ids.first() == ids.last();
                        for w in ids.windows(2) {
                            if !adj[w[0]][w[1]] {
                                ok = false;
                            }
                        }
                        if !ok {
                            out.violate(format!("c05/{fam}/reported-chain-is-not-a-path"), format!("reported chain {chain:?} is not a closed walk along real field edges\n--- input ---\n{}", input()));
                        }
                        for i in ids {
                            named[i] = true;
                        }
                    }
                }
                if cyclic && !e032.is_empty() && e032.iter().all(|d| d.message.contains("M1::") || d.message.contains("M2::")) {
                    for i in 0..4 {
                        if on_cycle[i] && !named[i] {
                            out.violate(format!("c05/{fam}/node-on-cycle-not-named"), format!("type {} lies on a cycle but no reported chain names it; reports: {:?}\n--- input ---\n{}", Self::scoped(i), e032.iter().map(|d| &d.message).collect::<Vec<_>>(), input()));
                            break;
                        }
                    }
                }
            }
        }
        out
    }
}

pub fn families(tier: &str) -> Vec<Box<dyn Family>> {
    let quick = tier == "quick";
    vec![
        Box::new(SmallGraphs { n: 1 }),
        Box::new(SmallGraphs { n: 2 }),
        Box::new(TenNodes),
        Box::new(AliasGraphs),
        Box::new(InheritanceGraphs),
        Box::new(PerEdgeRouting),
        Box::new(SmallGraphs { n: 3 }),
        Box::new(FourNodes { all_routings: !quick }),
        Box::new(TwoModules { modes: if tier == "quick" { 4 } else { 8 } }),
        Box::new(AliasDiamonds),
        Box::new(BothKindsOfCycle),
    ]
}
