//! A minimal "downstream compiler": parses the same command line as slicec, compiles, and ends with the LIBRARY's
//! exit point `CompilationState::emit_diagnostics` (slicec's own binary carries a copy of those lines in main.rs).
//! Used by C14 to compare the two exit points on the same inputs.

use clap::Parser;
use slicec::slice_options::SliceOptions;

fn main() -> std::process::ExitCode {
    let options = SliceOptions::parse();
    let state = slicec::compile_from_options(&options);
    match state.emit_diagnostics(&options) {
        true => std::process::ExitCode::FAILURE,
        false => std::process::ExitCode::SUCCESS,
    }
}
