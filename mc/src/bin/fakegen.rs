fn main() {}
