//! `fakegen` — the scripted fake code generator used by engine E3 (`/verif/mc/src/proc.rs`).
//!
//! The harness hard-links this one executable into a scenario's private generator directory under a distinct
//! name per generator.  A generator finds its behaviour in the file `<argv[0]>.script` (JSON, written by
//! `proc::Script::to_json`) and leaves three records next to itself:
//!
//! * `<argv[0]>.started` — one line `pid=<pid> argc=<n>` appended per start (so a double start is visible),
//! * `<argv[0]>.stdin`   — every byte it read from stdin (created when it starts, appended after each read step),
//! * `<argv[0]>.done`    — written immediately before the process ends through the script (normal exit, scripted
//!   exit code, or self-inflicted signal); it is missing only if somebody else killed the generator.
//!
//! Script: `{"steps":[STEP,...]}` with STEP one of
//! `{"op":"read_all"}` (read stdin until EOF), `{"op":"read","n":N}` (read exactly N bytes or until EOF),
//! `{"op":"close_stdin"}`, `{"op":"sleep","ms":N}` (explicit delay point), `{"op":"stdout","hex":".."}`,
//! `{"op":"stderr","hex":".."}` (write errors, e.g. EPIPE, are ignored), `{"op":"close_stdout"}`,
//! `{"op":"exit","code":N}`, `{"op":"kill","signal":N}` (default disposition restored, core dumps disabled).
//! The end of the script is `exit 0`.  A missing or malformed script is exit code 97 with nothing written to the
//! standard streams (so that slicec sees an ordinary failing generator and the harness sees no `.done`).

use std::io::{Read, Write};

fn unhex(s: &str) -> Vec<u8> {
    let b = s.as_bytes();
    let mut out = Vec::with_capacity(b.len() / 2);
    let val = |c: u8| match c {
        b'0'..=b'9' => c - b'0',
        b'a'..=b'f' => c - b'a' + 10,
        b'A'..=b'F' => c - b'A' + 10,
        _ => 0,
    };
    let mut i = 0;
    while i + 1 < b.len() {
        out.push(val(b[i]) << 4 | val(b[i + 1]));
        i += 2;
    }
    out
}

fn append(path: &str, bytes: &[u8]) {
    if let Ok(mut f) = std::fs::OpenOptions::new().create(true).append(true).open(path) {
        let _ = f.write_all(bytes);
    }
}

fn finish(me: &str) {
    append(&format!("{me}.done"), b"done\n");
}

fn main() {
    let me = std::env::args().next().unwrap_or_default();
    let me = if me.contains('/') {
        me
    } else {
        std::env::current_exe().map(|p| p.display().to_string()).unwrap_or(me)
    };
    append(&format!("{me}.started"), format!("pid={} argc={}\n", std::process::id(), std::env::args().count()).as_bytes());
    append(&format!("{me}.stdin"), b"");
    let script: serde_json::Value = match std::fs::read(format!("{me}.script")).ok().and_then(|b| serde_json::from_slice(&b).ok()) {
        Some(v) => v,
        None => std::process::exit(97),
    };
    let empty = vec![];
    let steps = script["steps"].as_array().unwrap_or(&empty);
    let mut stdin_open = true;
    for step in steps {
        match step["op"].as_str().unwrap_or("") {
            "read_all" => {
                if stdin_open {
                    let mut buf = Vec::new();
                    let _ = std::io::stdin().lock().read_to_end(&mut buf);
                    append(&format!("{me}.stdin"), &buf);
                }
            }
            "read" => {
                if stdin_open {
                    let n = step["n"].as_u64().unwrap_or(0) as usize;
                    let mut buf = vec![0u8; n];
                    let mut got = 0;
                    let mut si = std::io::stdin().lock();
                    while got < n {
                        match si.read(&mut buf[got..]) {
                            Ok(0) => break,
                            Ok(k) => got += k,
                            Err(e) if e.kind() == std::io::ErrorKind::Interrupted => continue,
                            Err(_) => break,
                        }
                    }
                    append(&format!("{me}.stdin"), &buf[..got]);
                }
            }
            "close_stdin" => {
                unsafe { libc::close(0) };
                stdin_open = false;
            }
            "sleep" => std::thread::sleep(std::time::Duration::from_millis(step["ms"].as_u64().unwrap_or(0))),
            "stdout" => {
                let bytes = unhex(step["hex"].as_str().unwrap_or(""));
                // raw fd write: no buffering, errors (EPIPE, EBADF after close_stdout) ignored
                let mut off = 0;
                while off < bytes.len() {
                    let r = unsafe { libc::write(1, bytes[off..].as_ptr() as *const libc::c_void, bytes.len() - off) };
                    if r <= 0 {
                        break;
                    }
                    off += r as usize;
                }
            }
            "stderr" => {
                let bytes = unhex(step["hex"].as_str().unwrap_or(""));
                let mut off = 0;
                while off < bytes.len() {
                    let r = unsafe { libc::write(2, bytes[off..].as_ptr() as *const libc::c_void, bytes.len() - off) };
                    if r <= 0 {
                        break;
                    }
                    off += r as usize;
                }
            }
            "close_stdout" => {
                unsafe { libc::close(1) };
            }
            "exit" => {
                finish(&me);
                std::process::exit(step["code"].as_i64().unwrap_or(0) as i32);
            }
            "kill" => {
                let sig = step["signal"].as_i64().unwrap_or(9) as i32;
                finish(&me);
                unsafe {
                    // no core files in the scenario directory
                    let lim = libc::rlimit { rlim_cur: 0, rlim_max: 0 };
                    libc::setrlimit(libc::RLIMIT_CORE, &lim);
                    // the Rust runtime installs a SIGSEGV/SIGBUS handler (stack overflow detection) that would
                    // simply return for a raised signal: restore the default disposition first
                    libc::signal(sig, libc::SIG_DFL);
                    libc::kill(libc::getpid(), sig);
                    // not reached for fatal signals; make sure the process still ends abnormally
                    std::thread::sleep(std::time::Duration::from_millis(200));
                    libc::signal(libc::SIGKILL, libc::SIG_DFL);
                    libc::kill(libc::getpid(), libc::SIGKILL);
                }
                std::process::exit(98);
            }
            _ => {}
        }
    }
    finish(&me);
    std::process::exit(0);
}
