//! `mc <ID> <quick|thorough>` — decide one property by bounded exhaustive exploration of the real code.
//! `mc <ID> --replay <file>` — re-execute one recorded case.
//! Exit 0: property held on everything explored (known findings are printed, not alarms);
//! exit 1: `VIOLATION property=<id> replay=<path>` printed; exit 2: machinery error (never a verdict).

mod alloc_count;
mod engine;
mod known;
mod props;
mod refcodec;
mod util;
#[allow(dead_code)]
mod model;
#[allow(dead_code)]
mod proc;

use engine::*;
use serde_json::{json, Value};
use std::collections::BTreeMap;
use std::path::PathBuf;
use std::time::Instant;

#[global_allocator]
static GLOBAL: alloc_count::CountingAlloc = alloc_count::CountingAlloc;

fn verif_root() -> PathBuf {
    PathBuf::from(std::env::var("VERIF_ROOT").unwrap_or_else(|_| "/verif".to_string()))
}

fn main() {
    let args: Vec<String> = std::env::args().collect();
    if args.len() >= 2 && args[1] == "--worker" {
        // --worker prop tier fam_idx w nw from slot out deadline
        let prop = &args[2];
        let tier = &args[3];
        let fam_idx: usize = args[4].parse().unwrap();
        let w: u64 = args[5].parse().unwrap();
        let nw: u64 = args[6].parse().unwrap();
        let from: u64 = args[7].parse().unwrap();
        let deadline: f64 = args[10].parse().unwrap();
        let fams = props::families(prop, tier);
        engine::worker_main(fams[fam_idx].as_ref(), w, nw, from, &args[8], &args[9], deadline);
        return;
    }
    if args.len() < 3 {
        eprintln!("usage: mc <ID> <quick|thorough> | mc <ID> --replay <file> | mc <ID> --list <tier>");
        std::process::exit(2);
    }
    let prop = args[1].clone();
    if args[2] == "--replay" {
        std::process::exit(replay(&prop, &args[3]));
    }
    if args[2] == "--list" {
        let tier = args.get(3).cloned().unwrap_or("quick".into());
        for (i, f) in props::families(&prop, &tier).iter().enumerate() {
            println!("{i}\t{}\t{}", f.len(), f.name());
        }
        return;
    }
    if args[2] == "--case" {
        // mc <ID> --case <tier> <family-index> <idx>
        let tier = &args[3];
        let fi: usize = args[4].parse().unwrap();
        let idx: u64 = args[5].parse().unwrap();
        let fams = props::families(&prop, tier);
        let f = fams[fi].as_ref();
        println!("{}", serde_json::to_string_pretty(&f.describe(idx)).unwrap());
        let o = run_one(f, idx);
        println!("class={} nontrivial={} steps={} validated={}", o.class, o.nontrivial, o.steps, o.validated);
        for v in &o.violations {
            println!("violation sig={}\n  {}", v.sig, v.msg);
        }
        return;
    }
    let tier = args[2].clone();
    if tier != "quick" && tier != "thorough" {
        eprintln!("tier must be quick or thorough");
        std::process::exit(2);
    }
    std::process::exit(check(&prop, &tier));
}

fn check(prop: &str, tier: &str) -> i32 {
    let t0 = Instant::now();
    let seed: i64 = std::env::var("VERIF_SEED").ok().and_then(|s| s.parse().ok()).unwrap_or(0);
    let meta = props::meta(prop);
    let fams = props::families(prop, tier);
    if fams.is_empty() {
        eprintln!("MACHINERY: no families for {prop}");
        return 2;
    }
    let default_cap = if tier == "quick" { meta.quick_cap_s } else { meta.thorough_cap_s };
    let cap: f64 = std::env::var("VERIF_WALL_CAP_S").ok().and_then(|s| s.parse().ok()).unwrap_or(default_cap);
    let nworkers: usize = std::env::var("VERIF_WORKERS").ok().and_then(|s| s.parse().ok()).unwrap_or_else(|| std::thread::available_parallelism().map(|n| n.get()).unwrap_or(8).min(16));
    let scratch = std::env::temp_dir().join(format!("mc-{}-{}-{}", prop, tier, std::process::id()));
    let cfg = EngineCfg { prop: prop.to_string(), tier: tier.to_string(), wall_cap_s: cap, nworkers, scratch: scratch.clone() };
    let res = run_families(&cfg, &fams);
    let _ = std::fs::remove_dir_all(&scratch);

    // Triage violations against the committed known-findings file.
    let kf = known::load(&verif_root().join("known_findings.json"));
    let mut by_sig: BTreeMap<String, Vec<(String, u64, String)>> = BTreeMap::new();
    for (f, idx, v) in &res.violations {
        by_sig.entry(v.sig.clone()).or_default().push((f.clone(), *idx, v.msg.clone()));
    }
    let replay_dir = verif_root().join("replays").join(prop);
    let _ = std::fs::remove_dir_all(&replay_dir);
    let mut n_viol = 0;
    let mut known_seen: Vec<Value> = vec![];
    let mut viol_list: Vec<Value> = vec![];
    let mut known_printed: BTreeMap<String, (String, u64)> = BTreeMap::new();
    for (sig, cases) in &by_sig {
        if let Some(entry) = kf.match_open(prop, sig) {
            let e = known_printed.entry(entry.signature.clone()).or_insert((entry.what.clone(), 0));
            e.1 += cases.len() as u64;
            known_seen.push(json!({"signature": sig, "matched": entry.signature, "cases": cases.len(), "first": {"family": cases[0].0, "idx": cases[0].1}}));
            continue;
        }
        n_viol += 1;
        std::fs::create_dir_all(&replay_dir).unwrap();
        let (fname, idx, msg) = &cases[0];
        let fi = fams.iter().position(|f| &f.name() == fname).unwrap();
        let path = replay_dir.join(format!("{:03}.json", n_viol));
        let desc = util::guarded(|| fams[fi].describe(*idx)).unwrap_or(json!("<describe panicked>"));
        let rep = json!({
            "property": prop, "tier": tier, "family": fname, "family_index": fi, "idx": idx, "signature": sig,
            "message": msg, "cases_with_this_signature": cases.len(),
            "other_cases": cases.iter().skip(1).take(10).map(|c| json!({"family": c.0, "idx": c.1})).collect::<Vec<_>>(),
            "case": desc,
        });
        std::fs::write(&path, serde_json::to_string_pretty(&rep).unwrap()).unwrap();
        println!("VIOLATION property={} replay={}", prop, path.display());
        println!("  signature: {sig}");
        println!("  {}", util::truncate(msg, 1500));
        viol_list.push(json!({"signature": sig, "cases": cases.len(), "replay": path.display().to_string()}));
    }
    for (sig, (what, n)) in &known_printed {
        println!("KNOWN-FINDING: property={prop} {what} [signature {sig}; {n} case(s) this run]");
    }

    // Evidence.
    let mut fam_json = vec![];
    let (mut evals, mut steps, mut validated) = (0u64, 0u64, 0u64);
    let mut classes_total: std::collections::BTreeSet<String> = Default::default();
    let mut extra_total: BTreeMap<String, u64> = BTreeMap::new();
    for f in &res.families {
        evals += f.evaluations;
        steps += f.steps;
        validated += f.validated;
        for k in f.classes.keys() {
            classes_total.insert(format!("{}::{}", f.name, k));
        }
        for (k, v) in &f.extra {
            *extra_total.entry(k.clone()).or_insert(0) += v;
        }
        let mut top: Vec<(&String, &u64)> = f.classes.iter().collect();
        top.sort_by(|a, b| b.1.cmp(a.1));
        fam_json.push(json!({
            "family": f.name, "cases_in_family": f.len, "executed": f.evaluations, "complete": f.complete,
            "steps": f.steps, "validated_against_model": f.validated, "worker_crashes": f.crashes,
            "distinct_outcome_classes": f.classes.len(),
            "outcome_classes_top": top.iter().take(12).map(|(k, v)| json!({"class": k, "count": v})).collect::<Vec<_>>(),
            "extra": f.extra,
        }));
    }
    // samples: first, middle and last case of the first families
    let mut samples = vec![];
    for f in fams.iter().take(6) {
        let n = f.len();
        if n == 0 {
            continue;
        }
        for idx in [0, n / 2, n - 1].iter().take(if samples.len() < 4 { 3 } else { 1 }) {
            if let Ok(d) = util::guarded(|| f.describe(*idx)) {
                samples.push(json!({"family": f.name(), "idx": idx, "case": d}));
            }
        }
    }
    if samples.is_empty() {
        samples.push(json!("no sample could be rendered"));
    }
    let all_complete = res.families.iter().all(|f| f.complete);
    let states = res.hashes_all.len() as u64 + extra_total.get("unique_states").copied().unwrap_or(0);
    let transitions = steps + extra_total.get("generated_states").copied().unwrap_or(0);
    let coverage = json!({
        "evaluations": evals,
        "distinct_nontrivial": res.hashes_nontrivial.len(),
        "rule": meta.rule,
        "samples": samples,
        "states": states.max(1),
        "transitions": transitions.max(1),
        "traces_validated_against_impl": validated,
        "exhaustive": all_complete,
        "wall_cap_hit": res.capped,
        "wall_cap_s": cap,
        "bound": if tier == "quick" { meta.quick_bound } else { meta.thorough_bound },
        "distinct_cases": res.hashes_all.len(),
        "distinct_outcome_classes": classes_total.len(),
        "families": fam_json,
        "extra_counters": extra_total,
        "violations": viol_list,
        "known_findings_seen": known_seen,
        "workers": nworkers,
        "explanation": meta.explanation,
    });
    let ev = json!({
        "property_id": prop,
        "tier": tier,
        "seed": seed,
        "level": meta.level,
        "coverage": coverage,
        "assumptions": meta.assumptions,
        "wall_s": t0.elapsed().as_secs_f64(),
        "violations": n_viol,
    });
    let evdir = verif_root().join("evidence");
    std::fs::create_dir_all(&evdir).unwrap();
    std::fs::write(evdir.join(format!("{prop}.json")), serde_json::to_string_pretty(&ev).unwrap() + "\n").unwrap();
    println!(
        "{prop} {tier}: families={} executions={} distinct={} nontrivial={} steps={} validated={} classes={} complete={} violations={} known={} wall={:.1}s",
        res.families.len(),
        evals,
        res.hashes_all.len(),
        res.hashes_nontrivial.len(),
        steps,
        validated,
        classes_total.len(),
        all_complete,
        n_viol,
        known_printed.len(),
        t0.elapsed().as_secs_f64()
    );
    if evals == 0 {
        eprintln!("MACHINERY: nothing was executed");
        return 2;
    }
    if n_viol > 0 {
        1
    } else {
        0
    }
}

fn replay(prop: &str, file: &str) -> i32 {
    let v: Value = serde_json::from_str(&std::fs::read_to_string(file).expect("read replay file")).expect("parse replay file");
    let tier = v["tier"].as_str().unwrap_or("quick");
    let fname = v["family"].as_str().unwrap();
    let idx = v["idx"].as_u64().unwrap();
    let fams = props::families(prop, tier);
    let Some(f) = fams.iter().find(|f| f.name() == fname) else {
        eprintln!("MACHINERY: family {fname} not found");
        return 2;
    };
    if f.sanitized() && std::env::var_os("MC_SANITIZED_WORKER").is_none() {
        // a case of the memory-safety layer is replayed by the instrumented build of this harness
        let Some(exe) = engine::asan_exe() else {
            eprintln!("MACHINERY: the AddressSanitizer build of the harness is not available (run ./check C01 quick once)");
            return 2;
        };
        let out = std::process::Command::new(exe)
            .args([prop, "--replay", file])
            .env("ASAN_OPTIONS", "detect_leaks=0:abort_on_error=1:malloc_context_size=8:handle_segv=1")
            .env("MC_SANITIZED_WORKER", "1")
            .output()
            .expect("run the instrumented harness");
        print!("{}", String::from_utf8_lossy(&out.stdout));
        let err = String::from_utf8_lossy(&out.stderr).to_string();
        if let Some(at) = err.find("ERROR: AddressSanitizer") {
            println!("VIOLATION property={prop} replay={file}");
            println!("  {}", err[at..].lines().take(16).collect::<Vec<_>>().join("\n  "));
            return 1;
        }
        eprint!("{err}");
        return out.status.code().unwrap_or(1);
    }
    println!("{}", serde_json::to_string_pretty(&f.describe(idx)).unwrap());
    let a = run_one(f.as_ref(), idx);
    let b = run_one(f.as_ref(), idx);
    let sa: Vec<_> = a.violations.iter().map(|v| v.sig.clone()).collect();
    let sb: Vec<_> = b.violations.iter().map(|v| v.sig.clone()).collect();
    if sa != sb || a.class != b.class {
        eprintln!("MACHINERY: replay diverged between two executions: {sa:?} vs {sb:?}");
        return 2;
    }
    println!("outcome class: {}", a.class);
    if a.violations.is_empty() {
        println!("no violation on this tree");
        return 0;
    }
    for v in &a.violations {
        println!("VIOLATION property={prop} replay={file}");
        println!("  signature: {}", v.sig);
        println!("  {}", v.msg);
    }
    1
}
