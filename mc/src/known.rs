//! The committed known-findings file: read-only at run time.
//!
//! {"open":[{"property":"C15","signature":"...","what":"..."}], "fixed":["fixed: property=C01 <commit> <what>"]}
//! An open entry matches a violation when property matches and the violation signature equals the entry's
//! signature, or the entry's signature ends with '*' and is a prefix of the violation's signature.
//! Fixed entries suppress nothing.

use serde_json::Value;
use std::path::Path;

#[derive(Clone, Debug)]
pub struct OpenFinding {
    pub property: String,
    pub signature: String,
    pub what: String,
}

#[derive(Default)]
pub struct Known {
    pub open: Vec<OpenFinding>,
}

pub fn load(path: &Path) -> Known {
    let mut k = Known::default();
    let Ok(s) = std::fs::read_to_string(path) else { return k };
    let v: Value = serde_json::from_str(&s).expect("known_findings.json does not parse");
    if let Some(arr) = v["open"].as_array() {
        for e in arr {
            k.open.push(OpenFinding {
                property: e["property"].as_str().unwrap().to_string(),
                signature: e["signature"].as_str().unwrap().to_string(),
                what: e["what"].as_str().unwrap().to_string(),
            });
        }
    }
    k
}

impl Known {
    pub fn match_open(&self, prop: &str, sig: &str) -> Option<&OpenFinding> {
        self.open.iter().find(|e| {
            e.property == prop
                && (e.signature == sig || (e.signature.ends_with('*') && sig.starts_with(&e.signature[..e.signature.len() - 1])))
        })
    }
}
