//! E1 — exhaustive, crash-isolated exploration of indexable case families.
//!
//! A *family* is a finite, indexable set of cases (`len()`, `run(idx)`); every case constructs one input
//! (a program, a layout, a byte string, an operation history, a process-level scenario ...), executes the
//! REAL code on it and compares with the reference model.  The engine enumerates every index of every
//! family (no sampling).  Exploration runs in worker sub-processes (re-exec of this binary) so that a
//! stack overflow / abort / hang inside the subject is observed by the parent and turned into a verdict
//! instead of killing the explorer; the worker explores on its main thread (8 MiB stack, as the real
//! binary's main thread).

use crate::util::*;
use serde_json::{json, Value};
use std::collections::{BTreeMap, HashSet};
use std::io::{BufRead, Write};
use std::panic::{catch_unwind, AssertUnwindSafe};
use std::path::PathBuf;
use std::process::{Child, Command, Stdio};
use std::time::{Duration, Instant};

#[derive(Clone, Debug)]
pub struct Violation {
    /// Stable identity of the *defect* (not of the input): scenario + first differing observable + features.
    pub sig: String,
    /// Human readable explanation (expected / observed / input).
    pub msg: String,
}

#[derive(Default, Debug)]
pub struct CaseOut {
    /// Hash of the rendered input: distinct cases are counted by it.
    pub hash: u64,
    /// Non-trivial by the family's stated rule.
    pub nontrivial: bool,
    /// Outcome class (vacuity detector: many executions, one class = nothing happened).
    pub class: String,
    /// Real-code steps executed for this case (compilations, operations, process runs, obligations).
    pub steps: u64,
    /// 1 if a reference-model expectation was compared against the implementation for this case.
    pub validated: u64,
    pub violations: Vec<Violation>,
    /// Additional named counters (summed per family), e.g. unique states of an explicit-state search.
    pub extra: Vec<(String, u64)>,
}

impl CaseOut {
    pub fn new(hash: u64) -> Self {
        CaseOut { hash, steps: 1, ..Default::default() }
    }
    pub fn violate(&mut self, sig: impl Into<String>, msg: impl Into<String>) {
        self.violations.push(Violation { sig: sig.into(), msg: msg.into() });
    }
}

pub trait Family: Sync {
    fn name(&self) -> String;
    fn len(&self) -> u64;
    fn run(&self, idx: u64) -> CaseOut;
    /// A JSON rendering of case `idx` (inputs, expected) for samples and replay files.
    fn describe(&self, idx: u64) -> Value;
    /// Seconds without progress after which the case counts as a hang.
    fn hang_secs(&self) -> f64 {
        20.0
    }
    /// True if this family's cases must run one per process (they change process-global state).
    fn workers(&self) -> Option<usize> {
        None
    }
    /// True if the workers of this family are to be the AddressSanitizer build of this harness (`asan_exe()`),
    /// so that an invalid memory access of the subject ends the worker at once instead of going unnoticed.
    fn sanitized(&self) -> bool {
        false
    }
    /// Signature to use if the worker dies / hangs while running case idx.
    fn crash_sig(&self, idx: u64, how: &str) -> String {
        let _ = idx;
        format!("{}|{}", self.name(), how)
    }
}

/// A family (or the index range `from .. from + count` of it) run once more in workers built with AddressSanitizer.
/// The cases and their oracles are the inner family's; what is added is that a read or write of freed or foreign
/// memory by the subject ends the worker with a report, which the engine turns into a crash violation.
pub struct Sanitized {
    pub inner: Box<dyn Family>,
    pub from: u64,
    pub count: u64,
}
impl Sanitized {
    pub fn all(inner: Box<dyn Family>) -> Self {
        let count = inner.len();
        Sanitized { inner, from: 0, count }
    }
    pub fn tail(inner: Box<dyn Family>, count: u64) -> Self {
        let n = inner.len();
        let count = count.min(n);
        Sanitized { inner, from: n - count, count }
    }
}
impl Family for Sanitized {
    fn name(&self) -> String {
        let n = self.inner.name();
        let (head, rest) = n.split_once('/').unwrap_or((n.as_str(), ""));
        if self.count == self.inner.len() {
            format!("{head}-under-address-sanitizer/{rest}")
        } else {
            format!("{head}-under-address-sanitizer/cases {}..{} of: {rest}", self.from, self.from + self.count)
        }
    }
    fn len(&self) -> u64 {
        self.count
    }
    fn run(&self, idx: u64) -> CaseOut {
        let mut o = self.inner.run(self.from + idx);
        o.hash ^= 0x5a5a_0000_0000_0000; // a case of its own: same input, different build of the subject
        o
    }
    fn describe(&self, idx: u64) -> Value {
        let mut d = self.inner.describe(self.from + idx);
        if let Some(m) = d.as_object_mut() {
            m.insert("build".into(), json!("harness and subject compiled with -Zsanitizer=address (nightly toolchain)"));
        }
        d
    }
    fn hang_secs(&self) -> f64 {
        self.inner.hang_secs() * 5.0
    }
    fn workers(&self) -> Option<usize> {
        self.inner.workers()
    }
    fn sanitized(&self) -> bool {
        true
    }
    fn crash_sig(&self, idx: u64, how: &str) -> String {
        self.inner.crash_sig(self.from + idx, how)
    }
}

pub struct FamilyStats {
    pub name: String,
    pub len: u64,
    pub evaluations: u64,
    pub steps: u64,
    pub validated: u64,
    pub complete: bool,
    pub classes: BTreeMap<String, u64>,
    pub crashes: u64,
    pub extra: BTreeMap<String, u64>,
}

pub struct RunResult {
    pub families: Vec<FamilyStats>,
    pub hashes_all: HashSet<u64>,
    pub hashes_nontrivial: HashSet<u64>,
    /// (family, idx, violation)
    pub violations: Vec<(String, u64, Violation)>,
    pub capped: bool,
}

const SLOT_WORDS: usize = 8; // idx, evals, steps, validated, nontrivial(unused), heartbeat, done, reserved

struct Slot {
    ptr: *mut u64,
    path: PathBuf,
}
impl Slot {
    fn create(path: PathBuf) -> Slot {
        let f = std::fs::OpenOptions::new().read(true).write(true).create(true).truncate(true).open(&path).unwrap();
        f.set_len((SLOT_WORDS * 8) as u64).unwrap();
        Self::map(f, path)
    }
    fn open(path: PathBuf) -> Slot {
        let f = std::fs::OpenOptions::new().read(true).write(true).open(&path).unwrap();
        Self::map(f, path)
    }
    fn map(f: std::fs::File, path: PathBuf) -> Slot {
        use std::os::fd::AsRawFd;
        let p = unsafe {
            libc::mmap(std::ptr::null_mut(), SLOT_WORDS * 8, libc::PROT_READ | libc::PROT_WRITE, libc::MAP_SHARED, f.as_raw_fd(), 0)
        };
        assert!(p != libc::MAP_FAILED, "mmap failed");
        Slot { ptr: p as *mut u64, path }
    }
    fn get(&self, i: usize) -> u64 {
        unsafe { std::ptr::read_volatile(self.ptr.add(i)) }
    }
    fn set(&self, i: usize, v: u64) {
        unsafe { std::ptr::write_volatile(self.ptr.add(i), v) }
    }
}

/// Worker entry: explore shard `w` of `nw` of family `fam`, starting at index `from`.
pub fn worker_main(fam: &dyn Family, w: u64, nw: u64, from: u64, slot_path: &str, out_path: &str, deadline_s: f64) {
    if std::env::var("MC_SANITIZED_WORKER").is_ok() && std::env::var("MC_SANITIZED_WORKER_INNER").is_err() {
        // the instrumented build uses several times the stack of the normal one: give the cases a stack that is
        // larger by more than that factor (8 MiB -> 96 MiB), so that only the normal build judges stack depth
        std::env::set_var("MC_SANITIZED_WORKER_INNER", "1");
        std::thread::scope(|sc| {
            std::thread::Builder::new().stack_size(96 << 20).spawn_scoped(sc, || worker_main(fam, w, nw, from, slot_path, out_path, deadline_s)).unwrap().join().unwrap();
        });
        return;
    }
    install_quiet_panic_hook();
    let slot = Slot::open(PathBuf::from(slot_path));
    let mut out = std::io::BufWriter::new(std::fs::OpenOptions::new().create(true).append(true).open(out_path).unwrap());
    let n = fam.len();
    let t0 = Instant::now();
    let mut classes: BTreeMap<String, u64> = BTreeMap::new();
    let mut hashes: Vec<u64> = Vec::new();
    let mut evals = 0u64;
    let mut steps = 0u64;
    let mut validated = 0u64;
    let mut extra: BTreeMap<String, u64> = BTreeMap::new();
    let mut idx = if from % nw == w { from } else { from + ((w + nw - from % nw) % nw) };
    let mut complete = true;
    while idx < n {
        if evals % 64 == 0 && t0.elapsed().as_secs_f64() > deadline_s {
            complete = false;
            break;
        }
        slot.set(0, idx);
        slot.set(5, slot.get(5).wrapping_add(1));
        let r = catch_unwind(AssertUnwindSafe(|| fam.run(idx)));
        match r {
            Ok(o) => {
                evals += 1;
                steps += o.steps;
                validated += o.validated;
                for (k, v) in o.extra {
                    *extra.entry(k).or_insert(0) += v;
                }
                *classes.entry(o.class).or_insert(0) += 1;
                hashes.push((o.hash & !1) | (o.nontrivial as u64));
                for v in o.violations {
                    writeln!(out, "{}", json!({"t":"v","idx":idx,"sig":v.sig,"msg":v.msg})).unwrap();
                    out.flush().unwrap();
                }
            }
            Err(_) => {
                evals += 1;
                let (loc, msg) = take_last_panic();
                let sig = fam.crash_sig(idx, &format!("harness-or-subject-panic@{}", loc));
                writeln!(out, "{}", json!({"t":"v","idx":idx,"sig":sig,"msg":format!("panic escaped the case body at {loc}: {msg}")})).unwrap();
                out.flush().unwrap();
            }
        }
        slot.set(1, evals);
        slot.set(2, steps);
        slot.set(3, validated);
        idx += nw;
    }
    slot.set(0, u64::MAX);
    let hp = format!("{}.hashes", out_path);
    let mut hf = std::io::BufWriter::new(std::fs::OpenOptions::new().create(true).append(true).open(hp).unwrap());
    for h in &hashes {
        hf.write_all(&h.to_le_bytes()).unwrap();
    }
    hf.flush().unwrap();
    writeln!(out, "{}", json!({"t":"done","evals":evals,"steps":steps,"validated":validated,"classes":classes,"complete":complete,"extra":extra})).unwrap();
    out.flush().unwrap();
    slot.set(6, 1);
}

struct WorkerProc {
    child: Child,
    slot: Slot,
    out_path: PathBuf,
    w: u64,
    last_idx: u64,
    last_beat: u64,
    last_change: Instant,
    segments: Vec<PathBuf>,
    /// evals accumulated from crashed segments (read from the slot at time of death)
    lost_evals: u64,
    lost_steps: u64,
    lost_validated: u64,
    /// the case at which this shard was last seen without progress and restarted once (see below)
    hang_retry_at: Option<u64>,
}

pub struct EngineCfg {
    pub prop: String,
    pub tier: String,
    pub wall_cap_s: f64,
    pub nworkers: usize,
    pub scratch: PathBuf,
}

/// The AddressSanitizer build of this harness (built by `check` with the nightly toolchain next to the normal one).
pub fn asan_exe() -> Option<PathBuf> {
    let exe = std::env::current_exe().ok()?;
    if exe.to_string_lossy().contains("/asan/") {
        return Some(exe);
    }
    // <root>/.build/release/mc -> <root>/.build/asan/x86_64-unknown-linux-gnu/release/mc
    let p = exe.parent()?.parent()?.join("asan/x86_64-unknown-linux-gnu/release").join(exe.file_name()?);
    // usable only if it is at least as new as the normal build (both are rebuilt by `check`)
    if p.exists() {
        Some(p)
    } else {
        None
    }
}

fn spawn_worker(cfg: &EngineCfg, sanitized: bool, fam_idx: usize, w: u64, nw: u64, from: u64, slot_path: &PathBuf, out_path: &PathBuf, deadline: f64) -> Child {
    let exe = if sanitized { asan_exe().expect("asan build") } else { std::env::current_exe().unwrap() };
    let mut c = Command::new(exe);
    if sanitized {
        c.env("ASAN_OPTIONS", "detect_leaks=0:abort_on_error=1:malloc_context_size=8:handle_segv=1");
        c.env("MC_SANITIZED_WORKER", "1");
    }
    c.arg("--worker")
        .arg(&cfg.prop)
        .arg(&cfg.tier)
        .arg(fam_idx.to_string())
        .arg(w.to_string())
        .arg(nw.to_string())
        .arg(from.to_string())
        .arg(slot_path)
        .arg(out_path)
        .arg(format!("{}", deadline))
        .stdin(Stdio::null())
        .stdout(Stdio::null())
        .stderr(Stdio::from(std::fs::File::create(format!("{}.stderr", slot_path.display())).expect("stderr file")))
        .spawn()
        .expect("spawn worker")
}

fn read_stderr_tail(slot_path: &PathBuf) -> String {
    let s = String::from_utf8_lossy(&std::fs::read(format!("{}.stderr", slot_path.display())).unwrap_or_default()).to_string();
    let s = s.trim();
    if s.len() > 600 {
        let mut start = s.len() - 600;
        while !s.is_char_boundary(start) {
            start += 1;
        }
        s[start..].to_string()
    } else {
        s.to_string()
    }
}

/// Explore all families; returns merged statistics and all violations.
pub fn run_families(cfg: &EngineCfg, fams: &[Box<dyn Family>]) -> RunResult {
    let t_start = Instant::now();
    let mut res = RunResult { families: vec![], hashes_all: HashSet::new(), hashes_nontrivial: HashSet::new(), violations: vec![], capped: false };
    std::fs::create_dir_all(&cfg.scratch).unwrap();
    for (fi, fam) in fams.iter().enumerate() {
        let n = fam.len();
        let remaining = cfg.wall_cap_s - t_start.elapsed().as_secs_f64();
        let mut st = FamilyStats { name: fam.name(), len: n, evaluations: 0, steps: 0, validated: 0, complete: true, classes: BTreeMap::new(), crashes: 0, extra: BTreeMap::new() };
        if n == 0 {
            res.families.push(st);
            continue;
        }
        if remaining <= 0.5 {
            st.complete = false;
            res.capped = true;
            res.families.push(st);
            continue;
        }
        if fam.sanitized() && asan_exe().is_none() {
            // the layer cannot run here (no nightly toolchain / sanitizer runtime): said so, never a verdict
            eprintln!("{}: AddressSanitizer build of the harness not available: family '{}' skipped", cfg.prop, truncate_name(&fam.name()));
            st.extra.insert("asan_layer_skipped".into(), 1);
            res.families.push(st);
            continue;
        }
        let nw = (fam.workers().unwrap_or(cfg.nworkers) as u64).min(n).max(1);
        let mut procs: Vec<WorkerProc> = vec![];
        for w in 0..nw {
            let slot_path = cfg.scratch.join(format!("slot-{fi}-{w}"));
            let out_path = cfg.scratch.join(format!("out-{fi}-{w}-0"));
            let _ = std::fs::remove_file(&out_path);
            let _ = std::fs::remove_file(format!("{}.hashes", out_path.display()));
            let slot = Slot::create(slot_path.clone());
            slot.set(0, w);
            let child = spawn_worker(cfg, fam.sanitized(), fi, w, nw, 0, &slot_path, &out_path, remaining);
            procs.push(WorkerProc { child, slot, out_path: out_path.clone(), w, last_idx: w, last_beat: 0, last_change: Instant::now(), segments: vec![out_path], lost_evals: 0, lost_steps: 0, lost_validated: 0, hang_retry_at: None });
        }
        let hang = Duration::from_secs_f64(fam.hang_secs());
        let mut hangs = 0u32;
        let mut live = procs.len();
        let mut finished = vec![false; procs.len()];
        while live > 0 {
            std::thread::sleep(Duration::from_millis(20));
            for (pi, p) in procs.iter_mut().enumerate() {
                if finished[pi] {
                    continue;
                }
                let idx = p.slot.get(0);
                let beat = p.slot.get(5);
                if idx != p.last_idx || beat != p.last_beat {
                    p.last_idx = idx;
                    p.last_beat = beat;
                    p.last_change = Instant::now();
                }
                let status = p.child.try_wait().unwrap();
                let mut died: Option<String> = None;
                if let Some(s) = status {
                    if p.slot.get(6) == 1 && s.success() {
                        finished[pi] = true;
                        live -= 1;
                        continue;
                    }
                    use std::os::unix::process::ExitStatusExt;
                    let how = match (s.signal(), s.code()) {
                        (Some(sig), _) => format!("killed-by-signal-{sig}"),
                        (None, Some(c)) => format!("exit-code-{c}"),
                        _ => "died".to_string(),
                    };
                    died = Some(how);
                } else if idx != u64::MAX && p.last_change.elapsed() > (if beat == 0 { hang.max(Duration::from_secs(180)) } else { hang }) {
                    // (before its first case a worker re-builds the family list; on a busy machine that start-up can
                    // take longer than the hang bound of a single case, so it gets a bound of its own)
                    let _ = p.child.kill();
                    let _ = p.child.wait();
                    died = Some(format!("hang>{}s", fam.hang_secs()));
                }
                if let Some(how) = died {
                    let tail = read_stderr_tail(&p.slot.path);
                    let at = p.slot.get(0);
                    // A case without progress for the whole bound is a hang only if it does it AGAIN: the first time
                    // the shard is restarted AT that case (a machine that stalls for 20 s under other load - seen
                    // once in a fresh sandbox on a case that takes microseconds - must not count as a hang of the
                    // subject; a real hang repeats and is reported at the second expiry).
                    if how.starts_with("hang") && at != u64::MAX && p.hang_retry_at != Some(at) {
                        p.hang_retry_at = Some(at);
                        *st.extra.entry("cases_restarted_after_a_stall".into()).or_insert(0) += 1;
                        p.lost_evals += p.slot.get(1);
                        p.lost_steps += p.slot.get(2);
                        p.lost_validated += p.slot.get(3);
                        let out_path = cfg.scratch.join(format!("out-{fi}-{}-{}", p.w, p.segments.len()));
                        let _ = std::fs::remove_file(&out_path);
                        let _ = std::fs::remove_file(format!("{}.hashes", out_path.display()));
                        p.slot.set(0, at);
                        p.slot.set(1, 0);
                        p.slot.set(2, 0);
                        p.slot.set(3, 0);
                        p.slot.set(5, 0);
                        p.slot.set(6, 0);
                        let remaining = (cfg.wall_cap_s - t_start.elapsed().as_secs_f64()).max(fam.hang_secs() + 5.0);
                        p.child = spawn_worker(cfg, fam.sanitized(), fi, p.w, nw, at, &p.slot.path, &out_path, remaining);
                        p.out_path = out_path.clone();
                        p.segments.push(out_path);
                        p.last_idx = at;
                        p.last_beat = 0;
                        p.last_change = Instant::now();
                        continue;
                    }
                    st.crashes += 1;
                    p.lost_evals += p.slot.get(1) + 1;
                    p.lost_steps += p.slot.get(2);
                    p.lost_validated += p.slot.get(3);
                    if at == u64::MAX {
                        // died after finishing all cases (e.g. while writing): machinery problem
                        eprintln!("MACHINERY: worker {}/{} of family {} died after completion: {how}: {tail}", p.w, nw, fam.name());
                        std::process::exit(2);
                    }
                    let asan = asan_class(&p.slot.path);
                    let how_class = match &asan {
                        Some(a) => format!("crash:{a}"),
                        None => classify_crash(&how, &tail),
                    };
                    let sig = fam.crash_sig(at, &how_class);
                    let tail = if asan.is_some() { asan_report_head(&p.slot.path) } else { tail };
                    res.violations.push((fam.name(), at, Violation { sig, msg: format!("worker died ({how}) while running case {at}; stderr tail: {tail}") }));
                    // restart after the crashing case
                    let next = at + nw;
                    if how.starts_with("hang") {
                        hangs += 1;
                    }
                    // a shard is not restarted once the family has shown many crashes, a few confirmed hangs (each costs
                    // the hang bound twice) or the wall cap is used up: the violations found so far are reported and
                    // the family counts as incomplete
                    let give_up = st.crashes > 200 || hangs >= 4 || t_start.elapsed().as_secs_f64() > cfg.wall_cap_s;
                    if next >= n || give_up {
                        if next < n && give_up {
                            st.complete = false;
                        }
                        finished[pi] = true;
                        live -= 1;
                        continue;
                    }
                    let out_path = cfg.scratch.join(format!("out-{fi}-{}-{}", p.w, p.segments.len()));
                    let _ = std::fs::remove_file(&out_path);
                    let _ = std::fs::remove_file(format!("{}.hashes", out_path.display()));
                    p.slot.set(0, next);
                    p.slot.set(1, 0);
                    p.slot.set(2, 0);
                    p.slot.set(3, 0);
                    p.slot.set(6, 0);
                    let remaining = (cfg.wall_cap_s - t_start.elapsed().as_secs_f64()).max(1.0);
                    p.child = spawn_worker(cfg, fam.sanitized(), fi, p.w, nw, next, &p.slot.path, &out_path, remaining);
                    p.out_path = out_path.clone();
                    p.segments.push(out_path);
                    p.last_idx = next;
                    p.last_change = Instant::now();
                }
            }
        }
        // merge
        for p in &procs {
            st.evaluations += p.lost_evals;
            st.steps += p.lost_steps;
            st.validated += p.lost_validated;
            for seg in &p.segments {
                let mut done_seen = false;
                if let Ok(f) = std::fs::File::open(seg) {
                    for line in std::io::BufReader::new(f).lines() {
                        let line = line.unwrap();
                        let v: Value = match serde_json::from_str(&line) {
                            Ok(v) => v,
                            Err(_) => continue,
                        };
                        match v["t"].as_str() {
                            Some("v") => res.violations.push((
                                fam.name(),
                                v["idx"].as_u64().unwrap(),
                                Violation { sig: v["sig"].as_str().unwrap().to_string(), msg: v["msg"].as_str().unwrap().to_string() },
                            )),
                            Some("done") => {
                                done_seen = true;
                                st.evaluations += v["evals"].as_u64().unwrap();
                                st.steps += v["steps"].as_u64().unwrap();
                                st.validated += v["validated"].as_u64().unwrap();
                                if !v["complete"].as_bool().unwrap() {
                                    st.complete = false;
                                }
                                for (k, c) in v["classes"].as_object().unwrap() {
                                    *st.classes.entry(k.clone()).or_insert(0) += c.as_u64().unwrap();
                                }
                                for (k, c) in v["extra"].as_object().unwrap() {
                                    *st.extra.entry(k.clone()).or_insert(0) += c.as_u64().unwrap();
                                }
                            }
                            _ => {}
                        }
                    }
                }
                let _ = done_seen;
                if let Ok(b) = std::fs::read(format!("{}.hashes", seg.display())) {
                    for ch in b.chunks_exact(8) {
                        let h = u64::from_le_bytes(ch.try_into().unwrap());
                        res.hashes_all.insert(h & !1);
                        if h & 1 == 1 {
                            res.hashes_nontrivial.insert(h & !1);
                        }
                    }
                }
                let _ = std::fs::remove_file(seg);
                let _ = std::fs::remove_file(format!("{}.hashes", seg.display()));
            }
            let _ = std::fs::remove_file(&p.slot.path);
            let _ = std::fs::remove_file(format!("{}.stderr", p.slot.path.display()));
        }
        if !st.complete {
            res.capped = true;
        }
        res.families.push(st);
    }
    res
}

fn truncate_name(n: &str) -> String {
    n.chars().take(80).collect()
}

/// "ERROR: AddressSanitizer: <kind> ..." + "SUMMARY: ... in <function>" of a sanitizer report, if there is one.
fn asan_class(slot_path: &PathBuf) -> Option<String> {
    let s = String::from_utf8_lossy(&std::fs::read(format!("{}.stderr", slot_path.display())).unwrap_or_default()).to_string();
    let at = s.find("ERROR: AddressSanitizer: ")?;
    let kind: String = s[at + 25..].chars().take_while(|c| !c.is_whitespace()).collect();
    let func = s.lines().find(|l| l.starts_with("SUMMARY: AddressSanitizer")).and_then(|l| l.rfind(" in ").map(|i| l[i + 4..].trim().to_string())).unwrap_or_default();
    // the first frames inside the subject, for the message
    Some(format!("asan:{kind}@{}", func.chars().take(120).collect::<String>()))
}

fn asan_report_head(slot_path: &PathBuf) -> String {
    let s = String::from_utf8_lossy(&std::fs::read(format!("{}.stderr", slot_path.display())).unwrap_or_default()).to_string();
    match s.find("ERROR: AddressSanitizer: ") {
        Some(at) => s[at..].lines().take(14).collect::<Vec<_>>().join("\n"),
        None => String::new(),
    }
}

fn classify_crash(how: &str, tail: &str) -> String {
    if tail.contains("has overflowed its stack") {
        "crash:stack-overflow".into()
    } else if tail.contains("memory allocation of") {
        "crash:allocation-failure-abort".into()
    } else if how.starts_with("hang") {
        "hang".into()
    } else if how.contains("signal-11") {
        "crash:sigsegv".into()
    } else if how.contains("signal-6") {
        "crash:abort".into()
    } else {
        format!("crash:{how}")
    }
}

/// Run one case in-process (replay / samples).
pub fn run_one(fam: &dyn Family, idx: u64) -> CaseOut {
    install_quiet_panic_hook();
    match catch_unwind(AssertUnwindSafe(|| fam.run(idx))) {
        Ok(o) => o,
        Err(_) => {
            let (loc, msg) = take_last_panic();
            let mut o = CaseOut::new(0);
            o.violate(fam.crash_sig(idx, &format!("harness-or-subject-panic@{loc}")), format!("panic at {loc}: {msg}"));
            o
        }
    }
}
