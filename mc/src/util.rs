//! Small shared helpers: hashing, panic capture, timing.

use std::cell::RefCell;
use std::sync::Once;

pub fn fnv64(bytes: &[u8]) -> u64 {
    let mut h: u64 = 0xcbf29ce484222325;
    for b in bytes {
        h ^= *b as u64;
        h = h.wrapping_mul(0x100000001b3);
    }
    // final avalanche (splitmix) so that low bits are well mixed
    let mut z = h.wrapping_add(0x9e3779b97f4a7c15);
    z = (z ^ (z >> 30)).wrapping_mul(0xbf58476d1ce4e5b9);
    z = (z ^ (z >> 27)).wrapping_mul(0x94d049bb133111eb);
    z ^ (z >> 31)
}

pub fn hash_str(s: &str) -> u64 {
    fnv64(s.as_bytes())
}

pub fn hash_parts(parts: &[&[u8]]) -> u64 {
    let mut v = Vec::new();
    for p in parts {
        v.extend_from_slice(&(p.len() as u64).to_le_bytes());
        v.extend_from_slice(p);
    }
    fnv64(&v)
}

thread_local! {
    static LAST_PANIC: RefCell<(String, String)> = RefCell::new((String::new(), String::new()));
}

static HOOK: Once = Once::new();

/// Replace the default panic hook by one that records (location, message) in a thread local and prints nothing.
pub fn install_quiet_panic_hook() {
    HOOK.call_once(|| {
        std::panic::set_hook(Box::new(|info| {
            let loc = info.location().map(|l| format!("{}:{}", short_path(l.file()), l.line())).unwrap_or_else(|| "?".into());
            let msg = if let Some(s) = info.payload().downcast_ref::<&str>() {
                s.to_string()
            } else if let Some(s) = info.payload().downcast_ref::<String>() {
                s.clone()
            } else {
                "<non-string panic payload>".to_string()
            };
            LAST_PANIC.with(|c| *c.borrow_mut() = (loc, msg));
        }));
    });
}

pub fn take_last_panic() -> (String, String) {
    LAST_PANIC.with(|c| std::mem::take(&mut *c.borrow_mut()))
}

/// Strip everything up to the crate directory so that signatures do not depend on the checkout location.
pub fn short_path(p: &str) -> String {
    for key in ["slicec/src/", "slice-codec/src/", "mc/src/"] {
        if let Some(i) = p.find(key) {
            return p[i..].to_string();
        }
    }
    if let Some(i) = p.find("/library/") {
        return format!("std{}", &p[i + 8..]);
    }
    if let Some(i) = p.rfind("/registry/src/") {
        let rest = &p[i + 14..];
        if let Some(j) = rest.find('/') {
            return format!("dep/{}", &rest[j + 1..]);
        }
    }
    p.to_string()
}

/// Run `f`, catching a panic of the subject; returns Err((location, message)).
pub fn guarded<T>(f: impl FnOnce() -> T) -> Result<T, (String, String)> {
    install_quiet_panic_hook();
    match std::panic::catch_unwind(std::panic::AssertUnwindSafe(f)) {
        Ok(v) => Ok(v),
        Err(_) => Err(take_last_panic()),
    }
}

pub fn truncate(s: &str, n: usize) -> String {
    if s.chars().count() <= n {
        s.to_string()
    } else {
        let t: String = s.chars().take(n).collect();
        format!("{t}…[{} chars]", s.chars().count())
    }
}

/// Mixed-radix decoding of an index into digits (least significant first is radices[0]).
pub fn decode_index(mut idx: u64, radices: &[u64]) -> Vec<u64> {
    let mut out = Vec::with_capacity(radices.len());
    for r in radices {
        out.push(idx % r);
        idx /= r;
    }
    out
}

pub fn product(radices: &[u64]) -> u64 {
    radices.iter().product()
}
