//! Independent bit-level reference of the Slice encoding (written from the property statements C10/C11 and
//! docs.icerpc.dev/slice2/encoding, not from slice-codec), plus a typed bridge to the real codec.

use slice_codec::buffer::slice::SliceInputSource;
use slice_codec::buffer::InputSource;
use slice_codec::decode_from::DecodeFrom;
use slice_codec::decoder::Decoder;
use slice_codec::encode_into::EncodeInto;
use slice_codec::encoder::Encoder;
use std::collections::{BTreeMap, HashMap};

#[path = "/repo/slicec/src/definition_types.rs"]
#[allow(dead_code, unused_imports)]
pub mod definition_types;

#[derive(Clone, Debug, PartialEq, Eq, Hash)]
pub enum Ty {
    Bool,
    U8,
    I8,
    U16,
    I16,
    U32,
    I32,
    U64,
    I64,
    F32,
    F64,
    /// varint decoded into a signed type of that many bits (8/16/32/64)
    VarInt(u8),
    /// varuint decoded into an unsigned type of that many bits (8/16/32/64; 0 = usize)
    VarUInt(u8),
    Size,
    Str,
    Seq(Box<Ty>),
    HMap(Box<Ty>, Box<Ty>),
    BMap(Box<Ty>, Box<Ty>),
    SkipTagged,
    GeneratedFile,
    Diagnostic,
    DiagLevel,
    Reply,
}

#[derive(Clone, Debug, PartialEq, Eq, PartialOrd, Ord, Hash)]
pub enum V {
    Bool(bool),
    Int(i128),
    F32(u32),
    F64(u64),
    Str(String),
    Seq(Vec<V>),
    /// entries sorted by key
    Map(Vec<(V, V)>),
    Unit,
    Struct(Vec<V>),
    None,
}

pub fn seq(t: Ty) -> Ty {
    Ty::Seq(Box::new(t))
}
pub fn hmap(k: Ty, v: Ty) -> Ty {
    Ty::HMap(Box::new(k), Box::new(v))
}
pub fn bmap(k: Ty, v: Ty) -> Ty {
    Ty::BMap(Box::new(k), Box::new(v))
}

// ------------------------------------------------------------------------------------------------------------
// Reference encoder

pub fn int_range(ty: &Ty) -> Option<(i128, i128)> {
    Some(match ty {
        Ty::U8 => (0, u8::MAX as i128),
        Ty::I8 => (i8::MIN as i128, i8::MAX as i128),
        Ty::U16 => (0, u16::MAX as i128),
        Ty::I16 => (i16::MIN as i128, i16::MAX as i128),
        Ty::U32 => (0, u32::MAX as i128),
        Ty::I32 => (i32::MIN as i128, i32::MAX as i128),
        Ty::U64 => (0, u64::MAX as i128),
        Ty::I64 => (i64::MIN as i128, i64::MAX as i128),
        _ => return None,
    })
}

fn fixed_width(ty: &Ty) -> Option<usize> {
    Some(match ty {
        Ty::U8 | Ty::I8 => 1,
        Ty::U16 | Ty::I16 => 2,
        Ty::U32 | Ty::I32 | Ty::F32 => 4,
        Ty::U64 | Ty::I64 | Ty::F64 => 8,
        _ => return None,
    })
}

/// varint62 / varuint62: shortest of 1/2/4/8 bytes holding (value << 2) | code; None if outside 62 bits.
pub fn ref_var(value: i128, signed: bool) -> Option<Vec<u8>> {
    let (min, max): (i128, i128) = if signed { (-(1i128 << 61), (1i128 << 61) - 1) } else { (0, (1i128 << 62) - 1) };
    if value < min || value > max {
        return None;
    }
    for (code, nbytes) in [(0u8, 1usize), (1, 2), (2, 4), (3, 8)] {
        let bits = nbytes as u32 * 8 - 2;
        let fits = if signed { value >= -(1i128 << (bits - 1)) && value < (1i128 << (bits - 1)) } else { value < (1i128 << bits) };
        if fits {
            let word: u128 = (((value << 2) as u128) | code as u128) & if nbytes == 16 { u128::MAX } else { (1u128 << (nbytes * 8)) - 1 };
            return Some(word.to_le_bytes()[..nbytes].to_vec());
        }
    }
    None
}

pub fn ref_encode(ty: &Ty, v: &V) -> Option<Vec<u8>> {
    match (ty, v) {
        (Ty::Bool, V::Bool(b)) => Some(vec![*b as u8]),
        (Ty::F32, V::F32(bits)) => Some(bits.to_le_bytes().to_vec()),
        (Ty::F64, V::F64(bits)) => Some(bits.to_le_bytes().to_vec()),
        (Ty::VarInt(_), V::Int(i)) => ref_var(*i, true),
        (Ty::VarUInt(_), V::Int(i)) | (Ty::Size, V::Int(i)) => ref_var(*i, false),
        (t, V::Int(i)) if fixed_width(t).is_some() => {
            let w = fixed_width(t).unwrap();
            let (lo, hi) = int_range(t).unwrap();
            if *i < lo || *i > hi {
                return None;
            }
            // two's complement, little endian
            Some((*i as u128).to_le_bytes()[..w].to_vec())
        }
        (Ty::Str, V::Str(s)) => {
            let mut out = ref_var(s.len() as i128, false)?;
            out.extend_from_slice(s.as_bytes());
            Some(out)
        }
        (Ty::Seq(t), V::Seq(items)) => {
            let mut out = ref_var(items.len() as i128, false)?;
            for it in items {
                out.extend(ref_encode(t, it)?);
            }
            Some(out)
        }
        (Ty::BMap(k, val), V::Map(entries)) => {
            // ordered dictionary: entries in key order
            let mut out = ref_var(entries.len() as i128, false)?;
            for (a, b) in entries {
                out.extend(ref_encode(k, a)?);
                out.extend(ref_encode(val, b)?);
            }
            Some(out)
        }
        (Ty::HMap(..), V::Map(_)) => None, // order unspecified: use ref_encode_map_entries
        _ => panic!("ref_encode: value {v:?} does not fit type {ty:?}"),
    }
}

/// For unordered dictionaries: (size prefix, encodings of the individual entries).
pub fn ref_encode_map_entries(k: &Ty, val: &Ty, entries: &[(V, V)]) -> Option<(Vec<u8>, Vec<Vec<u8>>)> {
    let prefix = ref_var(entries.len() as i128, false)?;
    let mut es = vec![];
    for (a, b) in entries {
        let mut e = ref_encode(k, a)?;
        e.extend(ref_encode(val, b)?);
        es.push(e);
    }
    Some((prefix, es))
}

// ------------------------------------------------------------------------------------------------------------
// Reference decoder

pub struct Rd<'a> {
    pub b: &'a [u8],
    pub pos: usize,
}

impl<'a> Rd<'a> {
    fn take(&mut self, n: usize) -> Result<&'a [u8], ()> {
        if n > self.b.len() - self.pos {
            return Err(());
        }
        let s = &self.b[self.pos..self.pos + n];
        self.pos += n;
        Ok(s)
    }
    fn le(&mut self, n: usize) -> Result<u128, ()> {
        let s = self.take(n)?;
        let mut buf = [0u8; 16];
        buf[..n].copy_from_slice(s);
        Ok(u128::from_le_bytes(buf))
    }
    fn var(&mut self, signed: bool) -> Result<i128, ()> {
        if self.pos >= self.b.len() {
            return Err(());
        }
        let n = 1usize << (self.b[self.pos] & 3);
        let raw = self.le(n)?;
        let bits = n as u32 * 8;
        let v: i128 = if signed {
            // sign-extend from `bits`, then arithmetic shift by 2
            let shifted = (raw << (128 - bits)) as i128 >> (128 - bits);
            shifted >> 2
        } else {
            (raw >> 2) as i128
        };
        Ok(v)
    }
    fn size(&mut self) -> Result<usize, ()> {
        let v = self.var(false)?;
        usize::try_from(v).map_err(|_| ())
    }
}

pub fn ref_decode(ty: &Ty, rd: &mut Rd) -> Result<V, ()> {
    Ok(match ty {
        Ty::Bool => match rd.take(1)?[0] {
            0 => V::Bool(false),
            1 => V::Bool(true),
            _ => return Err(()),
        },
        Ty::U8 | Ty::U16 | Ty::U32 | Ty::U64 => V::Int(rd.le(fixed_width(ty).unwrap())? as i128),
        Ty::I8 | Ty::I16 | Ty::I32 | Ty::I64 => {
            let w = fixed_width(ty).unwrap() as u32 * 8;
            let raw = rd.le((w / 8) as usize)?;
            V::Int((raw << (128 - w)) as i128 >> (128 - w))
        }
        Ty::F32 => V::F32(rd.le(4)? as u32),
        Ty::F64 => V::F64(rd.le(8)? as u64),
        Ty::VarInt(bits) => {
            let v = rd.var(true)?;
            let b = *bits as u32;
            if v < -(1i128 << (b - 1)) || v > (1i128 << (b - 1)) - 1 {
                return Err(());
            }
            V::Int(v)
        }
        Ty::VarUInt(bits) => {
            let v = rd.var(false)?;
            let b = if *bits == 0 { usize::BITS } else { *bits as u32 };
            if v > (1i128 << b) - 1 {
                return Err(());
            }
            V::Int(v)
        }
        Ty::Size => V::Int(rd.size()? as i128),
        Ty::Str => {
            let n = rd.size()?;
            let s = rd.take(n)?;
            V::Str(std::str::from_utf8(s).map_err(|_| ())?.to_string())
        }
        Ty::Seq(t) => {
            let n = rd.size()?;
            let mut items = vec![];
            for _ in 0..n {
                items.push(ref_decode(t, rd)?);
            }
            V::Seq(items)
        }
        Ty::HMap(k, v) | Ty::BMap(k, v) => {
            let n = rd.size()?;
            let mut m: BTreeMap<V, V> = BTreeMap::new();
            for _ in 0..n {
                let a = ref_decode(k, rd)?;
                let b = ref_decode(v, rd)?;
                if m.insert(a, b).is_some() {
                    return Err(()); // duplicate key
                }
            }
            V::Map(m.into_iter().collect())
        }
        Ty::SkipTagged => {
            loop {
                let tag = rd.var(true)?;
                if tag < i32::MIN as i128 || tag > i32::MAX as i128 {
                    return Err(());
                }
                if tag == -1 {
                    break;
                }
                let n = rd.size()?;
                rd.take(n)?;
            }
            V::Unit
        }
        Ty::GeneratedFile => {
            let p = ref_decode(&Ty::Str, rd)?;
            let c = ref_decode(&Ty::Str, rd)?;
            ref_decode(&Ty::SkipTagged, rd)?;
            V::Struct(vec![p, c])
        }
        Ty::DiagLevel => match rd.take(1)?[0] {
            b @ 0..=2 => V::Int(b as i128),
            _ => return Err(()),
        },
        Ty::Diagnostic => {
            let has_source = match ref_decode(&Ty::Bool, rd)? {
                V::Bool(b) => b,
                _ => unreachable!(),
            };
            let level = ref_decode(&Ty::DiagLevel, rd)?;
            let message = ref_decode(&Ty::Str, rd)?;
            let source = if has_source { ref_decode(&Ty::Str, rd)? } else { V::None };
            ref_decode(&Ty::SkipTagged, rd)?;
            V::Struct(vec![level, message, source])
        }
        Ty::Reply => {
            let files = ref_decode(&seq(Ty::GeneratedFile), rd)?;
            let diags = ref_decode(&seq(Ty::Diagnostic), rd)?;
            V::Struct(vec![files, diags])
        }
    })
}

// ------------------------------------------------------------------------------------------------------------
// Bridge to the real codec

pub trait Bridge: Sized {
    fn to_v(&self) -> V;
    fn from_v(v: &V) -> Self;
}
macro_rules! bridge_int {
    ($($t:ty),*) => {$(impl Bridge for $t {
        fn to_v(&self) -> V { V::Int(*self as i128) }
        fn from_v(v: &V) -> Self { match v { V::Int(i) => *i as $t, _ => panic!("from_v") } }
    })*};
}
bridge_int!(u8, i8, u16, i16, u32, i32, u64, i64);
impl Bridge for bool {
    fn to_v(&self) -> V {
        V::Bool(*self)
    }
    fn from_v(v: &V) -> Self {
        matches!(v, V::Bool(true))
    }
}
impl Bridge for f32 {
    fn to_v(&self) -> V {
        V::F32(self.to_bits())
    }
    fn from_v(v: &V) -> Self {
        match v {
            V::F32(b) => f32::from_bits(*b),
            _ => panic!(),
        }
    }
}
impl Bridge for f64 {
    fn to_v(&self) -> V {
        V::F64(self.to_bits())
    }
    fn from_v(v: &V) -> Self {
        match v {
            V::F64(b) => f64::from_bits(*b),
            _ => panic!(),
        }
    }
}
impl Bridge for String {
    fn to_v(&self) -> V {
        V::Str(self.clone())
    }
    fn from_v(v: &V) -> Self {
        match v {
            V::Str(s) => s.clone(),
            _ => panic!(),
        }
    }
}
impl<T: Bridge> Bridge for Vec<T> {
    fn to_v(&self) -> V {
        V::Seq(self.iter().map(|x| x.to_v()).collect())
    }
    fn from_v(v: &V) -> Self {
        match v {
            V::Seq(items) => items.iter().map(T::from_v).collect(),
            _ => panic!(),
        }
    }
}
impl<K: Bridge + Eq + std::hash::Hash, T: Bridge> Bridge for HashMap<K, T> {
    fn to_v(&self) -> V {
        let mut e: Vec<(V, V)> = self.iter().map(|(k, v)| (k.to_v(), v.to_v())).collect();
        e.sort();
        V::Map(e)
    }
    fn from_v(v: &V) -> Self {
        match v {
            V::Map(es) => es.iter().map(|(k, v)| (K::from_v(k), T::from_v(v))).collect(),
            _ => panic!(),
        }
    }
}
impl<K: Bridge + Ord, T: Bridge> Bridge for BTreeMap<K, T> {
    fn to_v(&self) -> V {
        let mut e: Vec<(V, V)> = self.iter().map(|(k, v)| (k.to_v(), v.to_v())).collect();
        e.sort();
        V::Map(e)
    }
    fn from_v(v: &V) -> Self {
        match v {
            V::Map(es) => es.iter().map(|(k, v)| (K::from_v(k), T::from_v(v))).collect(),
            _ => panic!(),
        }
    }
}
impl Bridge for definition_types::GeneratedFile {
    fn to_v(&self) -> V {
        V::Struct(vec![V::Str(self.path.clone()), V::Str(self.contents.clone())])
    }
    fn from_v(_: &V) -> Self {
        unimplemented!()
    }
}
impl Bridge for definition_types::DiagnosticLevel {
    fn to_v(&self) -> V {
        V::Int(*self as u8 as i128)
    }
    fn from_v(_: &V) -> Self {
        unimplemented!()
    }
}
impl Bridge for definition_types::Diagnostic {
    fn to_v(&self) -> V {
        V::Struct(vec![self.level.to_v(), V::Str(self.message.clone()), self.source.as_ref().map(|s| V::Str(s.clone())).unwrap_or(V::None)])
    }
    fn from_v(_: &V) -> Self {
        unimplemented!()
    }
}

#[derive(Debug)]
pub struct RealErr {
    /// `to_string()` of the returned error, or Err(panic location) if rendering it panicked
    pub rendered: Result<String, String>,
}

fn real_err(e: slice_codec::Error) -> RealErr {
    let r = crate::util::guarded(|| e.to_string());
    RealErr { rendered: r.map_err(|(loc, msg)| format!("{loc}: {msg}")) }
}

/// After a refused decode the decoder is still the caller's: what it says about its position must stay inside the
/// input, and reading on must fail or return bytes OF THE INPUT (a cursor left beyond the end reads foreign memory).
fn probe_after_refusal(d: &mut Decoder<SliceInputSource>, bytes: &[u8]) {
    let remaining = d.remaining();
    assert!(remaining <= bytes.len(), "after a refused decode remaining() is {remaining} for an input of {} bytes: the cursor has left the buffer", bytes.len());
    let at = bytes.len() - remaining;
    match d.decode::<u8>() {
        Ok(b) => assert!(remaining > 0 && bytes[at] == b, "after a refused decode the next byte read is {b:#04x}, which is not byte {at} of the input"),
        Err(_) => assert!(remaining == 0, "after a refused decode {remaining} bytes are left but a single byte cannot be read"),
    }
}

fn dec_typed<T: DecodeFrom + Bridge>(bytes: &[u8]) -> Result<(V, usize), RealErr> {
    let mut d: Decoder<SliceInputSource> = Decoder::from(bytes);
    match d.decode::<T>() {
        Ok(v) => Ok((v.to_v(), bytes.len() - d.remaining())),
        Err(e) => {
            probe_after_refusal(&mut d, bytes);
            Err(real_err(e))
        }
    }
}

/// Decode `bytes` as `ty` with the REAL decoder. Returns (value, consumed).
pub fn real_decode(ty: &Ty, bytes: &[u8]) -> Result<(V, usize), RealErr> {
    use definition_types as dt;
    macro_rules! var {
        ($m:ident, $t:ty) => {{
            let mut d: Decoder<SliceInputSource> = Decoder::from(bytes);
            match d.$m::<$t>() {
                Ok(v) => Ok((V::Int(v as i128), bytes.len() - d.remaining())),
                Err(e) => {
                    probe_after_refusal(&mut d, bytes);
                    Err(real_err(e))
                }
            }
        }};
    }
    match ty {
        Ty::Bool => dec_typed::<bool>(bytes),
        Ty::U8 => dec_typed::<u8>(bytes),
        Ty::I8 => dec_typed::<i8>(bytes),
        Ty::U16 => dec_typed::<u16>(bytes),
        Ty::I16 => dec_typed::<i16>(bytes),
        Ty::U32 => dec_typed::<u32>(bytes),
        Ty::I32 => dec_typed::<i32>(bytes),
        Ty::U64 => dec_typed::<u64>(bytes),
        Ty::I64 => dec_typed::<i64>(bytes),
        Ty::F32 => dec_typed::<f32>(bytes),
        Ty::F64 => dec_typed::<f64>(bytes),
        Ty::VarInt(8) => var!(decode_varint, i8),
        Ty::VarInt(16) => var!(decode_varint, i16),
        Ty::VarInt(32) => var!(decode_varint, i32),
        Ty::VarInt(64) => var!(decode_varint, i64),
        Ty::VarUInt(8) => var!(decode_varuint, u8),
        Ty::VarUInt(16) => var!(decode_varuint, u16),
        Ty::VarUInt(32) => var!(decode_varuint, u32),
        Ty::VarUInt(64) => var!(decode_varuint, u64),
        Ty::VarUInt(0) => var!(decode_varuint, usize),
        Ty::Size => {
            let mut d: Decoder<SliceInputSource> = Decoder::from(bytes);
            match d.decode_size() {
                Ok(v) => Ok((V::Int(v as i128), bytes.len() - d.remaining())),
                Err(e) => Err(real_err(e)),
            }
        }
        Ty::Str => dec_typed::<String>(bytes),
        Ty::SkipTagged => {
            let mut d: Decoder<SliceInputSource> = Decoder::from(bytes);
            match d.skip_tagged_fields() {
                Ok(()) => Ok((V::Unit, bytes.len() - d.remaining())),
                Err(e) => Err(real_err(e)),
            }
        }
        Ty::GeneratedFile => dec_typed::<dt::GeneratedFile>(bytes),
        Ty::Diagnostic => dec_typed::<dt::Diagnostic>(bytes),
        Ty::DiagLevel => dec_typed::<dt::DiagnosticLevel>(bytes),
        Ty::Reply => {
            let mut d: Decoder<SliceInputSource> = Decoder::from(bytes);
            let files: Vec<dt::GeneratedFile> = d.decode().map_err(real_err)?;
            let diags: Vec<dt::Diagnostic> = d.decode().map_err(real_err)?;
            Ok((V::Struct(vec![files.to_v(), diags.to_v()]), bytes.len() - d.remaining()))
        }
        Ty::Seq(t) => match &**t {
            Ty::U8 => dec_typed::<Vec<u8>>(bytes),
            Ty::Bool => dec_typed::<Vec<bool>>(bytes),
            Ty::I32 => dec_typed::<Vec<i32>>(bytes),
            Ty::U16 => dec_typed::<Vec<u16>>(bytes),
            Ty::Str => dec_typed::<Vec<String>>(bytes),
            Ty::GeneratedFile => dec_typed::<Vec<dt::GeneratedFile>>(bytes),
            Ty::Diagnostic => dec_typed::<Vec<dt::Diagnostic>>(bytes),
            Ty::Seq(u) => match &**u {
                Ty::U8 => dec_typed::<Vec<Vec<u8>>>(bytes),
                Ty::Str => dec_typed::<Vec<Vec<String>>>(bytes),
                Ty::Seq(w) if **w == Ty::U8 => dec_typed::<Vec<Vec<Vec<u8>>>>(bytes),
                _ => panic!("unsupported type {ty:?}"),
            },
            Ty::BMap(k, v) if **k == Ty::U8 && **v == Ty::U8 => dec_typed::<Vec<BTreeMap<u8, u8>>>(bytes),
            _ => panic!("unsupported type {ty:?}"),
        },
        Ty::HMap(k, v) => match (&**k, &**v) {
            (Ty::U8, Ty::U8) => dec_typed::<HashMap<u8, u8>>(bytes),
            (Ty::Str, Ty::Str) => dec_typed::<HashMap<String, String>>(bytes),
            (Ty::I32, Ty::Bool) => dec_typed::<HashMap<i32, bool>>(bytes),
            (Ty::U8, Ty::Seq(s)) if **s == Ty::U8 => dec_typed::<HashMap<u8, Vec<u8>>>(bytes),
            _ => panic!("unsupported type {ty:?}"),
        },
        Ty::BMap(k, v) => match (&**k, &**v) {
            (Ty::U8, Ty::U8) => dec_typed::<BTreeMap<u8, u8>>(bytes),
            (Ty::Str, Ty::Seq(s)) if **s == Ty::U8 => dec_typed::<BTreeMap<String, Vec<u8>>>(bytes),
            (Ty::I32, Ty::Str) => dec_typed::<BTreeMap<i32, String>>(bytes),
            (Ty::U8, Ty::BMap(k2, v2)) if **k2 == Ty::U8 && **v2 == Ty::U8 => dec_typed::<BTreeMap<u8, BTreeMap<u8, u8>>>(bytes),
            _ => panic!("unsupported type {ty:?}"),
        },
        _ => panic!("unsupported type {ty:?}"),
    }
}

fn enc_typed<T: Bridge>(v: &V, out: &mut Encoder<impl slice_codec::buffer::OutputTarget>) -> Result<(), String>
where
    for<'a> &'a T: EncodeInto,
{
    let t = T::from_v(v);
    out.encode(&t).map_err(|e| e.to_string())
}

/// Encode `v` as `ty` with the REAL encoder into `enc`.
pub fn real_encode(ty: &Ty, v: &V, enc: &mut Encoder<impl slice_codec::buffer::OutputTarget>) -> Result<(), String> {
    let i = if let V::Int(i) = v { *i } else { 0 };
    match ty {
        Ty::Bool => enc_typed::<bool>(v, enc),
        Ty::U8 => enc_typed::<u8>(v, enc),
        Ty::I8 => enc_typed::<i8>(v, enc),
        Ty::U16 => enc_typed::<u16>(v, enc),
        Ty::I16 => enc_typed::<i16>(v, enc),
        Ty::U32 => enc_typed::<u32>(v, enc),
        Ty::I32 => enc_typed::<i32>(v, enc),
        Ty::U64 => enc_typed::<u64>(v, enc),
        Ty::I64 => enc_typed::<i64>(v, enc),
        Ty::F32 => enc_typed::<f32>(v, enc),
        Ty::F64 => enc_typed::<f64>(v, enc),
        // every integer type accepted through Into<i64> / Into<u64>
        Ty::VarInt(8) => enc.encode_varint(i as i8).map_err(|e| e.to_string()),
        Ty::VarInt(16) => enc.encode_varint(i as i16).map_err(|e| e.to_string()),
        Ty::VarInt(32) => enc.encode_varint(i as i32).map_err(|e| e.to_string()),
        Ty::VarInt(64) => enc.encode_varint(i as i64).map_err(|e| e.to_string()),
        Ty::VarUInt(8) => enc.encode_varuint(i as u8).map_err(|e| e.to_string()),
        Ty::VarUInt(16) => enc.encode_varuint(i as u16).map_err(|e| e.to_string()),
        Ty::VarUInt(32) => enc.encode_varuint(i as u32).map_err(|e| e.to_string()),
        Ty::VarUInt(64) => enc.encode_varuint(i as u64).map_err(|e| e.to_string()),
        Ty::VarUInt(0) | Ty::Size => enc.encode_size(i as usize).map_err(|e| e.to_string()),
        Ty::Str => enc_typed::<String>(v, enc),
        Ty::Seq(t) => match &**t {
            Ty::U8 => enc_typed::<Vec<u8>>(v, enc),
            Ty::Bool => enc_typed::<Vec<bool>>(v, enc),
            Ty::I32 => enc_typed::<Vec<i32>>(v, enc),
            Ty::U16 => enc_typed::<Vec<u16>>(v, enc),
            Ty::Str => enc_typed::<Vec<String>>(v, enc),
            Ty::Seq(u) => match &**u {
                Ty::U8 => enc_typed::<Vec<Vec<u8>>>(v, enc),
                Ty::Str => enc_typed::<Vec<Vec<String>>>(v, enc),
                Ty::Seq(w) if **w == Ty::U8 => enc_typed::<Vec<Vec<Vec<u8>>>>(v, enc),
                _ => panic!("unsupported type {ty:?}"),
            },
            Ty::BMap(k, val) if **k == Ty::U8 && **val == Ty::U8 => enc_typed::<Vec<BTreeMap<u8, u8>>>(v, enc),
            _ => panic!("unsupported type {ty:?}"),
        },
        Ty::HMap(k, val) => match (&**k, &**val) {
            (Ty::U8, Ty::U8) => enc_typed::<HashMap<u8, u8>>(v, enc),
            (Ty::Str, Ty::Str) => enc_typed::<HashMap<String, String>>(v, enc),
            (Ty::I32, Ty::Bool) => enc_typed::<HashMap<i32, bool>>(v, enc),
            (Ty::U8, Ty::Seq(s)) if **s == Ty::U8 => enc_typed::<HashMap<u8, Vec<u8>>>(v, enc),
            _ => panic!("unsupported type {ty:?}"),
        },
        Ty::BMap(k, val) => match (&**k, &**val) {
            (Ty::U8, Ty::U8) => enc_typed::<BTreeMap<u8, u8>>(v, enc),
            (Ty::Str, Ty::Seq(s)) if **s == Ty::U8 => enc_typed::<BTreeMap<String, Vec<u8>>>(v, enc),
            (Ty::I32, Ty::Str) => enc_typed::<BTreeMap<i32, String>>(v, enc),
            (Ty::U8, Ty::BMap(k2, v2)) if **k2 == Ty::U8 && **v2 == Ty::U8 => enc_typed::<BTreeMap<u8, BTreeMap<u8, u8>>>(v, enc),
            _ => panic!("unsupported type {ty:?}"),
        },
        _ => panic!("unsupported type {ty:?}"),
    }
}
