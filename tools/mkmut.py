#!/usr/bin/env python3
"""tools/mkmut.py — (re)generates /verif/mutants/<name>.diff for every entry of /verif/mutants/catalogue.py.
Each entry: (name, property ids the change is expected to break, what it does, [(file, old, new[, occurrence])...]).
Edits are made in a scratch worktree of /repo HEAD (/tmp/mkmut-wt, created on demand), never in /repo."""
import subprocess, sys, os, importlib.util
wt = '/tmp/mkmut-wt'
if not os.path.isdir(wt):
    subprocess.check_call(['git', '-C', '/repo', 'worktree', 'add', '-q', '--detach', wt, 'HEAD'])
head = subprocess.check_output(['git', '-C', '/repo', 'rev-parse', 'HEAD']).decode().strip()
subprocess.check_call(['git', '-C', wt, 'checkout', '-q', '--detach', head])
spec = importlib.util.spec_from_file_location('cat', '/verif/mutants/catalogue.py'); cat = importlib.util.module_from_spec(spec); spec.loader.exec_module(cat)
only = set(sys.argv[1:])
bad = 0
for name, props, what, edits in cat.MUTANTS:
    if only and name not in only: continue
    subprocess.check_call(['git', '-C', wt, 'checkout', '-q', '--', '.'])
    ok = True
    for e in edits:
        rel, old, new = e[0], e[1], e[2]; occ = e[3] if len(e) > 3 else None
        p = os.path.join(wt, rel); s = open(p).read(); n = s.count(old)
        if n == 0: print(f"{name}: OLD TEXT NOT FOUND in {rel}: {old[:60]!r}"); ok = False; break
        if n > 1 and occ is None: print(f"{name}: {n} occurrences in {rel}, give an index: {old[:60]!r}"); ok = False; break
        i = -1
        for _ in range((occ or 0) + 1): i = s.index(old, i + 1)
        open(p, 'w').write(s[:i] + new + s[i + len(old):])
    if not ok: bad += 1; continue
    d = subprocess.check_output(['git', '-C', wt, 'diff']).decode()
    open(f'/verif/mutants/{name}.diff', 'w').write(d)
subprocess.check_call(['git', '-C', wt, 'checkout', '-q', '--', '.'])
print('generated', len([m for m in cat.MUTANTS if not only or m[0] in only]) - bad, 'bad', bad)
