#!/usr/bin/env python3
"""Regenerates /verif/MANIFEST.json from the table below (single source of truth for the interface)."""
import json, os, sys

ROOT = os.path.dirname(os.path.dirname(os.path.abspath(__file__)))

# id -> (engine, technique, level text, level note, design_ref)
CHECKS = {
 "C12": ("E2-stateright",
         "explicit-state BFS (stateright) with the real buffer objects in the transition function, lock-step against an append-only log model",
         "All operation histories up to the depth bound on fixed-slice targets of capacity 0..4, the growable target and input sources of length 0..4 are explored exhaustively on the real objects; every generated state is compared with a Vec<u8> log model (contents, position, reservation ranges, guard regions, failed-operation-changes-nothing); an enumerated family adds what histories cannot contain (counts near usize::MAX, a reservation presented to another target, a vector with contents and dirty spare capacity). This is the right level because the property quantifies over histories of a small sequential state machine whose complete state is observable.",
         "trusted: the log model in mc/src/props/c12.rs; Reservation ranges are read from its Debug output; histories longer than the bound are covered only by the periodic family",
         "DESIGN.md §4 C12"),
}

CHECKS.update({
 "C10": ("E1-choice-tree",
         "exhaustive value-space enumeration on the real Encoder/Decoder against an independent bit-level wire-format reference",
         "Every value of the small fixed-width types, every variable-width value below the magnitude bound and around every power of two / range limit from every source width into every target width, every Unicode scalar as a string, all collection shapes up to a leaf bound are encoded by the real encoder into growable and exactly-sized targets, compared byte for byte with a u128 reference of the wire format, decoded back and checked for exact consumption. Exhaustive below the stated bounds; this is the level the property's own quantifier asks for.",
         "trusted: the wire-format reference in mc/src/refcodec.rs (written from the statement and the public encoding documentation); f64 and 32/64-bit integers are covered at boundaries only; collections >= 2^30 elements are not materialised",
         "DESIGN.md §4 C10"),
 "C11": ("E1-choice-tree",
         "exhaustive enumeration of all short byte strings x all decodable types on the real decoder against a reference decoder, with allocation accounting, in crash-isolated workers",
         "All byte strings up to the length bound, the announced-size family and every truncation / single-byte substitution of valid encodings are decoded by the real decoder for 35 types (including the generator-reply types compiled from /repo/slicec/src/definition_types.rs), plus tagged-field blocks with tags of every width and size class and variable-length integers decoded into unusual target types; Ok/Err, value and consumed prefix must agree with an independent reference decoder, every error must render, and bytes allocated per decode (counted by the harness allocator) must be governed by the input length; every truncation and 6 substitutions at every byte of a valid reply are also sent to the real slicec binary by a fake generator: an undecodable reply must become an error diagnostic and a non-zero exit status.",
         "trusted: the reference decoder in mc/src/refcodec.rs; the memory bound 256*len+4KiB is the harness' reading of 'governed by the length of the input'; byte strings longer than the bound are covered only through the corruption and announced-size families",
         "DESIGN.md §4 C11"),
 "C19": ("E1-choice-tree",
         "exhaustive enumeration of all short specification strings through the real clap command line against a reference parser; exhaustive round-trip products",
         "Every string up to the length bound over the syntax-relevant alphabet, and 14 specification shapes around each of 159 characters (all of ASCII, case-changing letters, every kind of white space, look-alikes of the separators, astral characters), are parsed through the real command-line definition in every form the option can be written (-G V, --generator V, =, attached; with sources before and after) and compared (accept/reject, path, pairs, order) with a reference parser written from the statement; every bounded (path, arguments) value is rendered through the escaping function and must parse back exactly; repeated -G options keep their order; through the real binary, argument lists (repeated keys, escaped / non-ASCII / long components) must reach two capturing generators unchanged after the identical request, and every rejected short string must be a usage error (exit status 2, nothing generated).",
         "trusted: the reference parser in mc/src/props/c19.rs; characters outside the alphabet are represented by 'b', tab, 'é' and '\"'",
         "DESIGN.md §4 C19"),
})

CHECKS.update({
 "C02": ("E1-choice-tree",
         "bounded-exhaustive enumeration of model programs x token-level layouts compiled by the real compiler; observed AST compared field by field with the generating model",
         "Programs are derived from a generative model of the grammar (construct sequences up to a depth bound, complete sub-families for type expressions, enumerator values, integer spellings, string escapes, attribute forms, per-gap separator assignments) and rendered under layout strategies; the AST reached through the public API must equal the model for every program and every layout. Exhaustive below the bounds; the expected result is known by construction, independent of slicec's lexer/parser.",
         "trusted: the model/printer/observer in mc/src/model; identifiers are short ASCII words; counts/depths beyond the bounds are not covered",
         "DESIGN.md §4 C02"),
 "C09": ("E1-choice-tree",
         "bounded-exhaustive enumeration of model programs x layouts; every AST span is checked against token positions recorded by the printer (relations from the statement)",
         "For every program and layout of the C02 families every Symbol's span is one obligation, checked against the positions the printer recorded for the tokens of that element (start at first token of the declaration proper, name included, end on a token of the element, exact spans for identifiers/types/attributes, doc parts within the comment). Doc comments with non-ASCII text before their links, tags and line ends are a family of their own (every doc part must lie within the characters of its lines). Diagnostic spans and snippet rendering (location line, line numbers, the source text shown, underline columns - for the diagnostic and for every note, also notes that point into another file) are checked on the violation catalogue and on a cross-file catalogue.",
         "trusted: the printer's position recording (rows advance at LF, columns count characters); relations are deliberately weaker than slicec's current conventions where the statement leaves room",
         "DESIGN.md §4 C09"),
 "C20": ("E1-choice-tree",
         "bounded-exhaustive enumeration of model programs walked with a recording visitor; callback sequence compared with the sequence derived from the model",
         "Every file of every program of the C02 families is walked separately with a recording visitor; the recorded sequence must equal the model-derived one (order, containers before contents, type references right after their owner then nested references depth-first, every declared entity exactly once, nothing foreign).",
         "trusted: the model-derived expected sequence; nested references reached through an alias of an anonymous type are optional events (documented softening)",
         "DESIGN.md §4 C20"),
})

CHECKS.update({
 "C05": ("E1-choice-tree",
         "complete enumeration of all small containment / alias / inheritance graphs rendered as programs and compiled by the real compiler; graph-theoretic oracle (reachability)",
         "Every directed containment graph on up to 3 nodes (all kinds x 11 routings: direct, optional, sequence, dictionary key / value, result arms, tagged members, through aliases; per-edge routings on 2 nodes), all 65536 graphs on 4 nodes, all 65536 graphs on same-named types of two modules (also with every edge through the same wrapper), all 9^4 alias graphs and all 2^16 inheritance graphs on 4 interfaces (with an operation each and with empty bodies) are compiled; E032 must be reported iff a containment cycle exists, chains must be real closed walks covering every node on a cycle, alias/inheritance loops must be rejected and acyclic ones accepted, and every run must end with a verdict in a crash-isolated worker.",
         "trusted: the reachability oracle; graphs with more than 4 nodes are represented by six deterministic 10-node families only",
         "DESIGN.md §4 C05"),
})

CHECKS.update({
 "C03": ("E1-choice-tree",
         "complete product of module-scope arrangements x entity kinds x reference spellings x positions x file orders compiled by the real compiler; bindings compared with a reference resolver",
         "All 7^3 kind assignments of same-named definitions over three nested module levels, every referencing level, 7 referencing positions, 12 reference spellings and 6 file orders (518k compilations) plus attribute-carrying alias chains up to length 4 are compiled; where the reference resolver (written from the statement) says 'bound' the whole observed AST including the scoped identifier and kind of every bound definition must equal the model, otherwise a resolution error must be reported; every entity is retrieved by its scoped name.",
         "trusted: the reference resolver in mc/src/model/resolve.rs; name collisions between a module and a definition are C15's subject and excluded here",
         "DESIGN.md §4 C03"),
})

CHECKS.update({
 "C04": ("E1-choice-tree",
         "per-rule exhaustive small-scope families and all ordered pairs of (well-formed + single-rule-violating) constructs compiled by the real compiler against an independent reference validator over the model",
         "For every rule of the statement a complete small-scope family is enumerated (tag/optional assignments over <= 3 members in 6 containers, enumerator values at every primitive's boundaries, every key type in 6 dictionary positions, every stream placement, every duplicate-name placement, every known attribute x target x argument list x repetition, malformed literals, every inheritance DAG over four interfaces like-named across two modules x every operation assignment) plus all ordered pairs drawn from 40 well-formed and 30 violating constructs; the reference checker decides well-formedness and the set of codes belonging to violated rules; accepted iff well-formed, and every reported error code must belong to a violated rule.",
         "trusted: the rule catalogue in mc/src/model/rules.rs (written from the statement); phase gating means equality of the reported and violated sets is not demanded",
         "DESIGN.md §4 C04"),
 "C07": ("E3-process",
         "complete product of process-level scenarios of the real slicec binary with logging fake generators",
         "Program class (13, one error of each phase / warnings only / clean) x position of the offending file x 0..3 generators x --dry-run x -A x -O x output format, plus runs with exactly one failing generator, an output directory that does not exist yet, the offending file listed as a reference (file and directory), and programs with 256 / 257 errors: generators are started iff no Error was produced and --dry-run is off; no file appears unless generators ran; exit status != 0 iff an error line was emitted. Complete product, same in both tiers.",
         "trusted: mc/src/proc.rs (scenario runner) and fakegen; the binary is built from /repo/slicec/src/main.rs as a bin target of the harness",
         "DESIGN.md §4 C07"),
 "C18": ("E3-process",
         "exhaustive enumeration of generator fault sequences (behaviour catalogue^1..3, every truncation of a valid reply, output-directory states, payload sizes, one delay deviation) against the real slicec binary",
         "1..3 scripted fake generators per run, each drawn from a 26-row behaviour catalogue (cannot start, exit codes, signals, stderr, stdin not read / half read, empty / truncated-at-every-byte / undecodable replies, nested, absolute and '..' output paths), one executable named by several -G options, x 8 output-directory states x small/large request x at most one 50 ms delay point: slicec must end without crash or hang, report exactly the failing generators by path, start all generators with the identical request followed by their own arguments, exit non-zero iff something failed, write files only from decoded replies below the output directory and leave identical files untouched.",
         "trusted: mc/src/proc.rs and fakegen; OS scheduling between slicec and its children is approximated by scripted delay points; 'not writable' is represented by 'is a regular file' because the harness runs as root; softenings SOFT-1..6 are listed in mc/src/props/c18.rs",
         "DESIGN.md §4 C18"),
})

CHECKS.update({
 "C16": ("E1-choice-tree",
         "bounded-exhaustive enumeration of doc-comment shapes x commentable positions x link targets compiled by the real compiler against a reference comment reader and the reference resolver",
         "All overview line sequences up to the bound over a 45-form line alphabet (six indentation kinds incl. mixed-width Unicode, links at start/middle/end, braces and at-signs that start no tag, blank and whitespace-only lines) in LF, CRLF and one-token-per-line layouts, block tags with inline/continuation messages in all orders and under 8 indentations / 4 gaps of the tag line (ASCII, non-ASCII, mixed), 32 link targets of every kind and scope distance (with shadowed names along the scope chain) from 11 positions, the same target written in two comments at once, and a 16-form malformed catalogue alone and next to healthy sibling comments: the whole observed AST including comments must equal the model; malformed / ill-fitting / unresolvable give exactly warnings of the right lint, never an error, and never cost an element.",
         "trusted: the reference comment reader in mc/src/model/doc.rs (written from the statement); CRLF carriage returns at line ends are normalised; @param on an enumerator is not judged",
         "DESIGN.md §4 C16"),
 "C17": ("E1-choice-tree",
         "exhaustive enumeration of argument lists over real directory trees (files, links, cycles, unreadable entries) through compile_from_options against a reference file-set resolver",
         "2^6 real directory trees (optional empty dir, file link, directory link, symlink cycle, dangling link, invalid UTF-8 file) x every sources/references argument list up to the bound over 12-19 path spellings per tree (incl. extensions in another letter case), plus lists of 4-5 entries over 4-5 spellings: compiled set, order, source priority, one DuplicateFile warning per repeat within a list and none across lists, I/O errors for missing / non-.slice / directory-as-source / unreadable and nothing parsed then.",
         "trusted: the reference resolver in mc/src/props/c17.rs (identity = canonical path computed on the model tree); permission faults cannot be produced as root (invalid UTF-8 stands in); under a symlink cycle only lower bounds on warnings are checked; read_dir order is treated as unordered",
         "DESIGN.md §4 C17"),
})

CHECKS.update({
 "C06": ("E1-choice-tree",
         "bounded-exhaustive enumeration of directive/source line sequences x symbol sets and of boolean expressions compiled by the real compiler against a reference preprocessor",
         "All line sequences (well nested or not) up to the length bound over a 14-form alphabet x all 8 subsets of {A,B,C} given with -D, all expression trees and token strings up to the bound, layout variants (indentation, blanks after '#', trailing comments, CRLF, missing final newline, multi-byte text and '#' inside source lines and trailers, blank lines / a directive / indentation before the module line), chains of #elif branches with different conditions, 2- and 3-file sets (also next to an ill-formed file that changes symbols before it fails): for well-formed files the definitions reaching the parser are exactly the selected lines at their original rows and columns (and an E033 probe diagnostic sits on the original position), ill-formed files give a located E002, symbols never leak between files.",
         "trusted: the reference preprocessor in mc/src/props/c06.rs; the expression grammar (! only before the first term, && and || equal precedence, left associative) is taken as the language definition; E002 counts are not demanded",
         "DESIGN.md §4 C06"),
 "C13": ("E1-choice-tree",
         "complete product of lint templates x suppression placements x arguments (options parsed by the real clap definition) with a reference level function and a differential oracle",
         "40 templates (every lint kind on every element kind it can arise on, incl. a parameter and a return member with the same name, every site that produces IncorrectDocComment) x 8 placements x 5 arguments x {alone, next to a validation error, next to a file with a syntax error / without a module / with a preprocessor error}, a second file with lints of its own, all placement pairs, DuplicateFile on real files, and the single-placement product again through the real binary with a capturing generator (exit status, error reports, set of warnings and decoded generator request with and without the suppression): a lint is Allowed exactly when named (or All) by an accepted --allow, the file attribute of its file, the element concerned or an enclosing definition; with and without the suppression the diagnostic list, spans and the AST are identical except for the targeted levels and the attribute itself; errors keep level Error.",
         "trusted: the reference level function in mc/src/props/c13.rs; an allow on an enclosing member (operation / enumerator) is not judged because the statement says 'definition'; the request differential uses C08's decoder",
         "DESIGN.md §4 C13"),
})

CHECKS.update({
 "C08": ("E3-process",
         "exhaustive enumeration of model programs x source/reference splits x argument lists through the real slicec binary with a capturing generator; independent schema decoder; expected request computed from the model",
         "Every construct alone in 4 module scopes x 4 splits x 4 argument lists, all ordered construct pairs, all 40 constructs packed into one file, three-file programs in every source/reference assignment and order, every @param/@returns documentation shape, every value extreme, and every tag / enumerator value / identifier, string, comment and member-list length one below, at and one above every size-class boundary of both variable-length integer formats: every run has three generators with different argument lists: the bytes received by each must end with its own arguments and the request before them must be byte-identical for all, the rest must decode completely according to slice/Compiler with an independently written decoder, and the decoded request (numeric type ids inlined, constrained to earlier anonymous symbols of the same file) must equal the request computed from the model; named ids must exist in transmitted files.",
         "trusted: the decoder and the expected-request builder in mc/src/props/c08.rs; variants are decoded as varint discriminant + payload + tag end marker, as the hand-written encoder and DESIGN §8 establish; message components are compared after concatenation",
         "DESIGN.md §4 C08"),
})

CHECKS.update({
 "C14": ("E1-choice-tree",
         "enumeration of diagnostic-producing programs x emission configurations; the stream written by the real DiagnosticEmitter (and by the real binary) is re-parsed independently and compared with the diagnostics obtained through the API",
         "46 diagnostic sources (one per diagnostic kind reachable from text, incl. notes with and without spans, multi-line spans, hostile user text) alone and in all ordered pairs, in one and two files and two layouts x {human, json} x colour on/off x --allow none/Deprecated/All are emitted into a buffer by the real emitter with options parsed by the real clap definition; ill-formed raw texts give the diagnostics of the parsing phases (no span, end of file, user bytes); a process-level slice runs the binary for totals, exit status, span-less diagnostics, diagnostics from the generator phase (also generators that write to stderr or reply with diagnostics) and hostile file names, with the environment asking for colours; a minimal compiler that ends with CompilationState::emit_diagnostics must write the same two streams as the binary. JSON lines must parse to objects with exactly the five keys and equal the API values in order; human output must have one header per non-allowed diagnostic with its notes and locations; totals and exit status agree; no ESC byte with colours disabled; allowed lints leave no trace.",
         "trusted: the stream parsers in mc/src/props/c14.rs; serde_json for parsing; multi-line messages are compared on their first line in human format",
         "DESIGN.md §4 C14"),
})

CHECKS.update({
 "C15": ("E1-choice-tree",
         "exhaustive subsets x permutations of a file pool compiled in-process (each twice, fresh hash seeds) and exhaustive source/reference assignments x orders through the real binary under controlled hash seeds; differential oracle",
         "Every subset of 2..4 (thorough: 5) of 31 inter-dependent files (cross-file references, alias chains, inheritance, deprecated uses, name collisions between definitions, modules and members, preprocessor symbols) in every permutation: accepted-or-rejected, every file's AST and the multiset of warnings must not depend on the order, and compiling twice gives identical results; 26 diagnostic-dense programs alone and in all ordered pairs are compiled 8 (thorough: 64) times with fresh hash seeds and must report the same diagnostics in the same order; at process level 3- and 4-file programs (clean, with warnings, rejected; thorough: every 3-subset of the pool) in every source/reference assignment and order, each under several HashMap seeds injected through an LD_PRELOAD getrandom shim: diagnostics and generator requests byte-identical across seeds and repetitions, request content per file identical across assignments.",
         "trusted: shim/hashseed.c controls std's hash seed (verified: same seed same order); the 2^128 seed space is sampled (4 / 32 seeds), everything else is exhaustive within the pool",
         "DESIGN.md §4 C15"),
})

CHECKS.update({
 "C01": ("E1-choice-tree",
         "bounded-exhaustive enumeration of token soups, one-deviation mutations, type form x position products, comment/directive soups and size-parametrised cost families in crash-isolated worker processes (the mutation families a second time in AddressSanitizer-instrumented workers), plus the option product of the real binary",
         "Every token sequence up to the bound over a 67-token alphabet in 10 contexts, every single-token and single-character deviation of 9 base programs (one of them with a parse-time lint on every documentable element), 175 type forms in 14 positions, comment and directive soups, 16 cost-growth families doubling up to 8 KiB incl. towers of aliases of two-armed anonymous types (each instance alone under the statement's time bound) are compiled, level-updated and emitted in both formats inside worker processes whose death (stack overflow, abort, signal) or silence is observed by the parent; the binary is run over the option product, over directory trees with symbolic-link cycles and unresolvable links, over the alias towers with a generator, and over the rule-boundary cases of C04 and the comment cases of C16 with a generator (the request builder only exists there); C05's containment / alias / inheritance graph families run a second time for the verdict only; the mutation families run once more in workers built with AddressSanitizer, so that a read of freed memory ends the case instead of depending on what the allocator left there. Only 'terminates with a verdict within the bound' is judged.",
         "trusted: the worker isolation in mc/src/engine.rs; AddressSanitizer (nightly toolchain) as the memory-access oracle of the sanitized families - if it cannot be built the layer is reported as skipped; inputs larger than the bounds are not covered; only inputs <= 8 KiB are timed against the 20 s clause; Unicode is represented by one code point per UTF-8 length class and per hazard",
         "DESIGN.md §4 C01"),
})

NOT_YET = {}

def main():
    props = [json.loads(l) for l in open(os.path.join(ROOT, "properties.jsonl"))]
    checks, na = [], []
    for p in props:
        pid = p["id"]
        if pid in CHECKS:
            eng, tech, text, note, ref = CHECKS[pid]
            level = "fault_enumeration" if pid == "C18" else "model_checking"
            checks.append({
                "property_id": pid,
                "quick_cmd": f"./check {pid} quick",
                "thorough_cmd": f"./check {pid} thorough",
                "evidence_file": f"/verif/evidence/{pid}.json",
                "replay_cmd_template": f"./check {pid} --replay {{path}}",
                "engine": eng,
                "level_claimed": {"category": level, "text": text, "design_ref": ref},
                "level_note": note,
                "technique": tech,
            })
        else:
            na.append({"property_id": pid, "reason": NOT_YET.get(pid, "check not built yet in this session (work in progress; see DESIGN.md §9 build order) - not a claim that model checking cannot apply")})
    manifest = {
        "version": 1,
        "setup_cmd": "cd /verif && CARGO_NET_OFFLINE=true ./setup.sh",
        "hooks": {
            "guard": "slicec_verif",
            "enable": "no source hooks are needed: every observable is reached through the public library API, Debug output and the process interface; checks build /repo as it is (path dependencies)",
            "baseline_off_cmd": "cd /repo && cargo test --workspace --no-fail-fast --offline",
            "source_commits": [],
            "add_only": True,
        },
        "engines": [
            {"name": "E1-choice-tree", "path": "mc/src/engine.rs", "serves_properties": [c for c in CHECKS if CHECKS[c][0].startswith("E1")], "kind_free_text": "stateless exhaustive enumeration of indexable case families (inputs/programs/layouts/byte strings) on the real code, crash-isolated worker processes"},
            {"name": "E2-stateright", "path": "mc/src/props", "serves_properties": [c for c in CHECKS if CHECKS[c][0].startswith("E2")], "kind_free_text": "explicit-state BFS (stateright 0.31) whose transition function drives the real objects"},
            {"name": "E3-process", "path": "mc/src/proc.rs", "serves_properties": [c for c in CHECKS if CHECKS[c][0].startswith("E3")], "kind_free_text": "exhaustive enumeration of process-level scenarios of the slicec binary with scripted fake generators (fault injection)"},
        ],
        "checks": checks,
        "not_applicable": na,
        "notes": "All checks: ./check <ID> <quick|thorough> rebuilds mc (harness + slicec binary from /repo/slicec/src/main.rs) against /repo's working tree, explores, rewrites evidence/<ID>.json. Known findings: known_findings.json (read-only at run time).",
    }
    json.dump(manifest, open(os.path.join(ROOT, "MANIFEST.json"), "w"), indent=1)
    print(f"{len(checks)} checks, {len(na)} not_applicable")

if __name__ == "__main__":
    main()
