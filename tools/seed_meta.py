#!/usr/bin/env python3
"""tools/seed_meta.py <name> <property> <caught_by comma list or 'none'> <needs...>  — writes seeded/<name>/meta.json from verify.txt/checks.txt"""
import json, sys, re, os
name, prop, caught = sys.argv[1], sys.argv[2], sys.argv[3]
needs = " ".join(sys.argv[4:])
d = f"/verif/seeded/{name}"
verify = open(f"{d}/verify.txt").read().strip().split("\n")[-1]
checks = open(f"{d}/checks.txt").read()
sigs = sorted(set(re.findall(r"signature: (\S+)", checks)))
meta = {
    "property": prop,
    "what_it_needs_to_manifest": needs,
    "independent_origin": "written by a fresh sub-agent that saw only the property text and a scratch worktree (nothing from /verif)",
    "confirmed_by_me": {
        "how": "tools/verify_seed.sh in a scratch worktree of /repo HEAD: demo passes on the clean tree; patch applies and compiles; the repository's own suite (512 tests) passes with the patch; the demo fails with the patch",
        "result_line": verify,
    },
    "checks_run": "tools/mutant_run.sh (harness copy built against a scratch worktree with the patch applied; /repo untouched)",
    "caught_by": [] if caught == "none" else caught.split(","),
    "signatures_reported": sigs[:12],
}
json.dump(meta, open(f"{d}/meta.json", "w"), indent=1)
print(name, "->", meta["caught_by"], len(sigs), "signatures")
