#!/bin/bash
# tools/mutant_run.sh <patch-file> <ID> [<ID>...]   — run checks against a scratch worktree of /repo with a patch applied.
# Never touches /repo's working tree. Keeps /tmp/mut$MUT_ID-target for incremental builds; removes the worktree afterwards.
# MUT_ID (optional) makes the scratch paths private, so several runs can go on at the same time.
# TIER=quick|thorough, LINES_MAX = output lines per check.
set -u
PATCH="$1"; shift
S="${MUT_ID:-}"
WT=/tmp/mut$S-wt; MC=/tmp/mut$S-mc; ROOT=/tmp/mut$S-root; TGT=/tmp/mut$S-target
git -C /repo worktree remove --force $WT >/dev/null 2>&1
rm -rf $WT $MC $ROOT
git -C /repo worktree add -q --detach $WT HEAD || exit 2
if ! git -C $WT apply "$PATCH"; then echo "PATCH DOES NOT APPLY"; git -C /repo worktree remove --force $WT; exit 2; fi
mkdir -p $ROOT/.build && cp /verif/known_findings.json $ROOT/ && cp /verif/.build/libhashseed.so $ROOT/.build/ 2>/dev/null
cp -r /verif/mc $MC
sed -i "s#/repo/#$WT/#g" $MC/Cargo.toml $MC/miri12/Cargo.toml $MC/src/*.rs $MC/src/*/*.rs
rm -rf $MC/.cargo
if ! ( cd $MC && CARGO_TARGET_DIR=$TGT cargo build --release --offline 2>&1 | grep -E "^error" -A10 | head -30; exit ${PIPESTATUS[0]} ); then echo "BUILD FAILED"; git -C /repo worktree remove --force $WT; rm -rf $MC $ROOT; exit 2; fi
case " $* " in *" C01 "*)
  ( cd $MC && RUSTFLAGS="-Zsanitizer=address" cargo +nightly build --release --offline --target x86_64-unknown-linux-gnu --target-dir $TGT/asan 2>&1 | grep -E "^error" -A10 | head -20 ) ;;
esac
for id in "$@"; do
  VERIF_ROOT=$ROOT $TGT/release/mc $id ${TIER:-quick} 2>&1 | grep -E "^VIOLATION|signature:|^$id |^KNOWN|MACHINERY" | cut -c1-300 | head -${LINES_MAX:-12}
done
git -C /repo worktree remove --force $WT
rm -rf $MC $ROOT
