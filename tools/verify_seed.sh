#!/bin/bash
# tools/verify_seed.sh <seed-dir-with-patch.diff-and-demo>  — confirms a seeded change in a scratch worktree:
# (1) demo passes on the clean tree, (2) patch applies and compiles, (3) the repo's own suite still passes with it,
# (4) the demo fails with it. Prints a summary line; removes the worktree (keeps /tmp/seedv${SEEDV_ID:-}-target for speed).
set -u
D="$1"; WT=/tmp/seedv${SEEDV_ID:-}-wt; unset CARGO_TARGET_DIR; mkdir -p /tmp/seedv${SEEDV_ID:-}-target
git -C /repo worktree remove --force $WT >/dev/null 2>&1; rm -rf $WT
git -C /repo worktree add -q --detach $WT HEAD || exit 2
ln -s /tmp/seedv${SEEDV_ID:-}-target $WT/target
cd $WT
demo_rs=$(ls "$D"/*.rs 2>/dev/null | head -1); demo_sh=$(ls "$D"/*.sh 2>/dev/null | head -1)
run_demo() {
  if [ -n "$demo_rs" ]; then
    crate=slicec; grep -q "slice_codec::" "$demo_rs" && ! grep -q "slicec::" "$demo_rs" && crate=slice-codec
    cp "$demo_rs" $crate/tests/zz_seed_demo.rs
    ( cd $WT && cargo test --offline -p $crate --test zz_seed_demo 2>&1 | grep -E "^test result|error(\[|:)" | head -3 )
    rm -f $crate/tests/zz_seed_demo.rs
  else
    ( cd $WT && cargo build --offline 2>&1 | grep -E "^error" | head -3; A1="$WT"; grep -Eq 'SLICEC="?\$\{1' "$demo_sh" && A1="$WT/target/debug/slicec"; SLICEC=$WT/target/debug/slicec WT=$WT bash "$demo_sh" "$A1" >/tmp/seedv${SEEDV_ID:-}-demo.out 2>&1; echo "demo.sh exit=$?"; tail -2 /tmp/seedv${SEEDV_ID:-}-demo.out | cut -c1-160 )
  fi
}
echo "--- demo on clean tree:"; CLEAN=$(run_demo); echo "$CLEAN"
if ! git apply "$D/patch.diff"; then echo "RESULT: patch does not apply"; cd /; git -C /repo worktree remove --force $WT; exit 1; fi
echo "--- repo suite with patch:"; SUITE=$(cargo test --workspace --no-fail-fast --offline 2>&1 | awk '/^test result/ {p+=$4; f+=$6} /^error/ {e=1} END {print "passed=" p " failed=" f " builderror=" e+0}'); echo "$SUITE"
echo "--- demo with patch:"; MUT=$(run_demo); echo "$MUT"
cd /; git -C /repo worktree remove --force $WT
echo "RESULT: clean=[$(echo $CLEAN | tr '\n' ' ')] suite=[$SUITE] mutated=[$(echo $MUT | tr '\n' ' ')]"
