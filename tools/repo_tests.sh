#!/bin/bash
# Runs the repository's own test suite (guard off = no hooks exist) and prints the totals.
cd /repo && cargo test --workspace --no-fail-fast --offline 2>&1 | awk '/^test result/ {p+=$4; f+=$6} /FAILED|panicked/ {print} END {print "passed=" p " failed=" f}'
