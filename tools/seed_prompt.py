import sys
pid=sys.argv[1]
text=open(f'/tmp/seed2/{pid}.txt').read()
wt=f'/tmp/seed2/{pid}-wt'; out=f'/tmp/seed2/{pid}-out'
print(f"""You are working in a scratch git worktree of the Rust project icerpc/slicec at {wt} (a compiler front end for the Slice IDL: crates `slicec` (lexer, LALRPOP parsers, preprocessor, AST, patchers, validators, diagnostics, the `slicec` binary in slicec/src/main.rs that drives external code-generator processes) and `slice-codec` (the Slice wire encoding and buffers)). Work ONLY inside {wt} and write results ONLY to {out}. Do not read, list or use anything under /verif, /repo or other /tmp/seed directories (they belong to someone else); there is no network.

Here is a semantic property the project is supposed to satisfy:

--- PROPERTY {pid} ---
{text}--- END ---

TASK: produce TWO different, realistic changes to the source under {wt}/slicec/src or {wt}/slice-codec/src (the kind of bug a maintainer could plausibly introduce: an off-by-one, a wrong variable, a missing case, a swapped order, state that is not reset, a check moved after the action it guards, the wrong scope, ...), each of which
 (1) still compiles,
 (2) keeps the existing test suite passing: `cd {wt} && cargo test --workspace --offline 2>&1 | grep -E "^test result|FAILED"` — run it and confirm every line says ok,
 (3) breaks the property above — but only under specific circumstances (a particular input shape, a multi-step sequence, an unusual layout or option, a fault at a particular point, or two sites that each look fine alone), NOT in a way that ordinary use would expose at once. The two changes should touch different mechanisms. Prefer mechanisms that are NOT the first thing one would think of: look at the less central code paths the property still depends on (the other files among the anchors, helper functions, rarely used options and element kinds, error and recovery paths, boundary values, interactions between two features).
For each change give a demonstration that FAILS with the change and PASSES without it: a small Rust integration test file (to be dropped into {wt}/slicec/tests/ or {wt}/slice-codec/tests/; look at the existing tests and tests/test_helpers.rs for how they call the library) or a shell script that runs the built binary ({wt}/target/debug/slicec).

DELIVER in {out}/1/ and {out}/2/ each: `patch.diff` (output of `git diff` of the SOURCE change only — no test files — applicable with `git apply` on the clean worktree HEAD), the demonstration file (`demo_test.rs` or `demo.sh`), and `README.md` (which clause of the property it breaks, what exactly is needed for it to manifest, the commands you ran and what they printed with and without the patch). Verify each patch applies cleanly on a clean tree (`git stash` or `git checkout -- .` first). When done leave the worktree clean (`git checkout -- .` and delete untracked demo files) and reply with a 5-line summary per change. Budget: about 40 minutes.""")
