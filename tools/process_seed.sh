#!/bin/bash
# tools/process_seed.sh <seed-out-dir> <name> <ID> [<ID>...] : verify a seeded change, run the given checks against it,
# and store it under /verif/seeded/<name>/ (patch.diff, demo, README.md, verify.txt, checks.txt).
set -u
SRC="$1"; NAME="$2"; shift 2
DST=/verif/seeded/$NAME; mkdir -p $DST
cp "$SRC"/patch.diff "$SRC"/README.md $DST/ 2>/dev/null; cp "$SRC"/*.rs "$SRC"/*.sh $DST/ 2>/dev/null
/verif/tools/verify_seed.sh $DST > $DST/verify.txt 2>&1; tail -1 $DST/verify.txt
LINES_MAX=8 MUT_ID=${SEEDV_ID:-} /verif/tools/mutant_run.sh $DST/patch.diff "$@" > $DST/checks.txt 2>&1; cat $DST/checks.txt | cut -c1-200
