#!/usr/bin/env python3
"""tools/gen_design_tables.py — regenerates the machine-made tables of DESIGN.md (between the
<!-- BEGIN GENERATED:<name> --> / <!-- END GENERATED:<name> --> markers):
  families  : the families of every check as built, quick vs thorough sizes (from `mc CNN --list`)
  seeded    : the independent seeded changes (from seeded/*/meta.json)
  mutants   : the self-made catalogue (from mutants/catalogue.py and mutants/RESULTS.tsv)
  fixed     : the defects repaired in /repo (from known_findings.json)
Needs a built harness (/verif/.build/release/mc)."""
import json, os, re, subprocess, glob, importlib.util

ROOT = os.path.dirname(os.path.dirname(os.path.abspath(__file__)))
MC = os.path.join(ROOT, '.build/release/mc')


def families():
    out = []
    for i in range(1, 21):
        cid = f'C{i:02d}'
        q = subprocess.run([MC, cid, '--list', 'quick'], capture_output=True, text=True).stdout.strip().split('\n')
        t = subprocess.run([MC, cid, '--list', 'thorough'], capture_output=True, text=True).stdout.strip().split('\n')
        def parse(lines):
            d = {}
            for l in lines:
                p = l.split('\t')
                if len(p) == 3:
                    # key = first segments of the family name (sizes inside names differ between tiers)
                    d.setdefault(re.sub(r'[0-9,]+', '#', p[2])[:48], []).append((int(p[1]), p[2]))
            return d
        dq, dt = parse(q), parse(t)
        out.append(f'\n**{cid}** — quick {sum(n for v in dq.values() for n, _ in v):,} cases in {sum(len(v) for v in dq.values())} families, thorough {sum(n for v in dt.values() for n, _ in v):,} in {sum(len(v) for v in dt.values())}\n')
        out.append('| family (thorough-tier name) | quick cases | thorough cases |')
        out.append('|---|---:|---:|')
        keys = list(dict.fromkeys(list(dt.keys()) + list(dq.keys())))
        for k in keys:
            tq = sum(n for n, _ in dq.get(k, []))
            tt = sum(n for n, _ in dt.get(k, []))
            name = (dt.get(k) or dq.get(k))[0][1]
            name = name if len(name) <= 150 else name[:147] + '...'
            out.append(f'| {name.replace("|", "/")} | {tq:,} | {tt:,} |' if tq else f'| {name.replace("|", "/")} | — | {tt:,} |')
    return '\n'.join(out)


def seeded():
    rows = ['| change | breaks | needs, in order to manifest | caught by | first missed? |', '|---|---|---|---|---|']
    for d in sorted(glob.glob(os.path.join(ROOT, 'seeded/*/meta.json'))):
        m = json.load(open(d))
        name = os.path.basename(os.path.dirname(d))
        needs = m['what_it_needs_to_manifest']
        missed = 'yes — strengthened' if re.search(r'first missed|strengthen|added', needs) else 'no'
        rows.append(f"| {name} | {m['property']} | {needs.replace('|', '/')} | {', '.join(m['caught_by']) or '—'} | {missed} |")
    return '\n'.join(rows)


def mutants():
    spec = importlib.util.spec_from_file_location('cat', os.path.join(ROOT, 'mutants/catalogue.py'))
    cat = importlib.util.module_from_spec(spec); spec.loader.exec_module(cat)
    res = {}
    p = os.path.join(ROOT, 'mutants/RESULTS.tsv')
    if os.path.exists(p):
        for l in open(p):
            f = l.rstrip('\n').split('\t')
            res[f[0]] = f[1:]   # the last line for a name wins
    rows = ['| edit | what it does | repo suite | checks |', '|---|---|---|---|']
    for name, props, what, edits in cat.MUTANTS:
        r = res.get(name)
        if not r:
            rows.append(f'| {name} | {what} | not run | |'); continue
        suite = r[0]
        m = re.search(r'passed=(\d+),failed=(\d+)', suite)
        suite = 'passes' if m and m.group(2) == '0' else (f'{m.group(2)} tests fail (the suite notices)' if m else suite)
        checks = '; '.join(re.sub(r'\[.*', '', c) for c in r[1:])
        rows.append(f'| {name} | {what.replace("|", "/")} | {suite} | {checks} |')
    return '\n'.join(rows)


def fixed():
    k = json.load(open(os.path.join(ROOT, 'known_findings.json')))
    rows = ['| property | commit | what failed |', '|---|---|---|']
    for e in k['fixed']:
        m = re.match(r'fixed: property=(C\d+) (\w+) (.*)', e)
        rows.append(f'| {m.group(1)} | {m.group(2)} | {m.group(3).replace("|", "/")} |')
    rows.append('')
    rows.append(f"Open known findings: {len(k['open'])}.")
    return '\n'.join(rows)


def main():
    p = os.path.join(ROOT, 'DESIGN.md')
    s = open(p).read()
    for name, fn in [('families', families), ('seeded', seeded), ('mutants', mutants), ('fixed', fixed)]:
        b, e = f'<!-- BEGIN GENERATED:{name} -->', f'<!-- END GENERATED:{name} -->'
        if b in s and e in s:
            i, j = s.index(b) + len(b), s.index(e)
            s = s[:i] + '\n' + fn() + '\n' + s[j:]
    open(p, 'w').write(s)
    print('DESIGN.md tables regenerated')


if __name__ == '__main__':
    main()
