#!/bin/bash
# tools/mutant_sweep.sh [name-regex]  — for every mutants/<name>.diff (matching the regex): apply it in a scratch worktree,
# run the repository's own suite (a mutant that the suite catches is marked SUITE-CATCHES and is not interesting), build the
# harness against the worktree and run the quick tier of the checks listed for it in mutants/catalogue.py.
# Appends one line per mutant to mutants/RESULTS.tsv: name, suite result, per-check verdict (caught / MISSED), first signature.
set -u
RE="${1:-.}"; S="${MUT_ID:-sweep}"
WT=/tmp/mut$S-wt; MC=/tmp/mut$S-mc; ROOT=/tmp/mut$S-root; TGT=/tmp/mut$S-target; TGTD=/tmp/mut$S-target-debug
OUT=/verif/mutants/RESULTS.tsv
python3 - "$RE" > /tmp/mut$S-list.txt <<'P'
import importlib.util, sys, re
spec = importlib.util.spec_from_file_location('cat', '/verif/mutants/catalogue.py'); cat = importlib.util.module_from_spec(spec); spec.loader.exec_module(cat)
for name, props, what, edits in cat.MUTANTS:
    if re.search(sys.argv[1], name): print(name, ",".join(props))
P
while read -r NAME PROPS; do
  git -C /repo worktree remove --force $WT >/dev/null 2>&1; rm -rf $WT $MC $ROOT
  git -C /repo worktree add -q --detach $WT HEAD || exit 2
  if ! git -C $WT apply /verif/mutants/$NAME.diff; then echo -e "$NAME\tPATCH-DOES-NOT-APPLY" >> $OUT; continue; fi
  SUITE="skipped"
  if [ "${SKIP_SUITE:-0}" != 1 ]; then
    SUITE=$(cd $WT && CARGO_TARGET_DIR=$TGTD cargo test --workspace --no-fail-fast --offline 2>&1 | awk '/^test result/ {p+=$4; f+=$6} /^error(\[|:)/ {e=1} END {print "passed=" p ",failed=" f ",builderror=" e+0}')
  fi
  mkdir -p $ROOT/.build && cp /verif/known_findings.json $ROOT/ && cp /verif/.build/libhashseed.so $ROOT/.build/ 2>/dev/null
  cp -r /verif/mc $MC; sed -i "s#/repo/#$WT/#g" $MC/Cargo.toml $MC/miri12/Cargo.toml $MC/src/*.rs $MC/src/*/*.rs; rm -rf $MC/.cargo
  if ! ( cd $MC && CARGO_TARGET_DIR=$TGT cargo build --release --offline >/tmp/mut$S-build.log 2>&1 ); then echo -e "$NAME\t$SUITE\tHARNESS-BUILD-FAILED" >> $OUT; continue; fi
  LINE="$NAME\t$SUITE"
  for id in ${PROPS//,/ }; do
    R=$(VERIF_ROOT=$ROOT $TGT/release/mc $id ${TIER:-quick} 2>&1); RC=$?
    SIG=$(echo "$R" | grep -m1 "signature:" | sed 's/.*signature: //' | cut -c1-90)
    if echo "$R" | grep -q "^VIOLATION"; then LINE="$LINE\t$id:caught[$SIG]"; elif [ $RC = 0 ]; then LINE="$LINE\t$id:MISSED"; else LINE="$LINE\t$id:rc=$RC"; fi
  done
  echo -e "$LINE" >> $OUT; echo -e "$LINE"
done < /tmp/mut$S-list.txt
git -C /repo worktree remove --force $WT >/dev/null 2>&1; rm -rf $MC $ROOT /tmp/mut$S-list.txt /tmp/mut$S-build.log
