#!/bin/bash
# Offline build of the harness, the slicec binary (from /repo) and the hash-seed shim.
set -e
cd "$(dirname "$0")"
export CARGO_NET_OFFLINE=true
mkdir -p .build evidence
( cd mc && cargo build --release --offline --target-dir "$PWD/../.build" )
if [ -f shim/hashseed.c ]; then
    gcc -O2 -shared -fPIC -o .build/libhashseed.so shim/hashseed.c -ldl
fi
echo "setup ok"
